--------------------------- MODULE CanonicalForm ---------------------------
(***************************************************************************)
(* C05 -- pure operators: the canonical form of an RRset and the signed    *)
(* data of RFC 4035 section 5.3.2.  Constant-free; shared by Canonical     *)
(* (machine + requirements), Gen_Canonical (case generator) and            *)
(* Trace_Canonical (monitor).                                              *)
(*                                                                         *)
(* Written from the RFC text only:                                         *)
(*   RFC 4034 6.1  canonical name order / lower-casing of US-ASCII letters *)
(*   RFC 4034 6.2  canonical RR form (names expanded, owner lower-cased,   *)
(*                 RDATA names lower-cased for the listed types, original  *)
(*                 TTL), list amended by RFC 6840 5.1 (NSEC is NOT         *)
(*                 lower-cased, RRSIG is)                                  *)
(*   RFC 4034 6.3  canonical RR order inside an RRset, duplicates removed  *)
(*   RFC 4035 5.3.2 signed_data = RRSIG_RDATA | RR(1) | RR(2) ...          *)
(*   RFC 4034 3.1.3 / RFC 4035 5.3.2  the Labels field and the wildcard    *)
(*                                                                         *)
(* Abstract data                                                           *)
(*   octet   0..255                                                        *)
(*   label   sequence of octets (1..63 of them)                            *)
(*   name    sequence of labels, leftmost first, the root is <<>>          *)
(*   field   [k |-> "b", v |-> sequence of octets]     opaque octets       *)
(*         | [k |-> "n", v |-> name]                   an embedded name    *)
(*   rdata   sequence of fields (the per-type layout is the case's)        *)
(*   u32 quantities travel as sequences of four octets (TLC integers are   *)
(*   32-bit signed), u16 quantities as naturals                            *)
(***************************************************************************)
EXTENDS Naturals, Sequences, FiniteSets, SequencesExt, TLC

B(v) == [k |-> "b", v |-> v]
N(v) == [k |-> "n", v |-> v]

STAR == <<42>>                      \* the label "*"

(***************************************************************************)
(* RFC 4034 6.2 item 3 as amended by RFC 6840 5.1: the RR types whose      *)
(* embedded names are lower-cased in the canonical form.                   *)
(*   NS 2, MD 3, MF 4, CNAME 5, SOA 6, MB 7, MG 8, MR 9, PTR 12, HINFO 13, *)
(*   MINFO 14, MX 15, RP 17, AFSDB 18, RT 21, SIG 24, PX 26, NXT 30,       *)
(*   SRV 33, NAPTR 35, KX 36, A6 38, DNAME 39, RRSIG 46  -- not NSEC (47)  *)
(***************************************************************************)
LowerTypes == {2, 3, 4, 5, 6, 7, 8, 9, 12, 13, 14, 15, 17, 18, 21, 24, 26, 30, 33, 35, 36, 38, 39, 46}

\* RFC 4034 6.1 / 6.2: only the US-ASCII upper-case letters are replaced
Fold(b)       == IF b \in 65..90 THEN b + 32 ELSE b
LowerLabel(l) == [i \in 1..Len(l) |-> Fold(l[i])]
LowerName(n)  == [i \in 1..Len(n) |-> LowerLabel(n[i])]

U16(n) == <<n \div 256, n % 256>>

\* wire form of a fully expanded name: length octet + label, ..., root octet
WireName(n)    == FlattenSeq([i \in 1..Len(n) |-> <<Len(n[i])>> \o n[i]]) \o <<0>>
WireField(f)   == IF f.k = "n" THEN WireName(f.v) ELSE f.v
WireFields(fs) == FlattenSeq([i \in 1..Len(fs) |-> WireField(fs[i])])

\* RFC 4034 6.2: canonical RDATA
CanonField(t, f)  == IF f.k = "n" /\ t \in LowerTypes THEN N(LowerName(f.v)) ELSE f
CanonRdata(t, rd) == [i \in 1..Len(rd) |-> CanonField(t, rd[i])]
CanonWire(t, rd)  == WireFields(CanonRdata(t, rd))

\* RFC 4034 6.3: left-justified unsigned octet sequences, absence of an octet sorts first
Min2(a, b) == IF a < b THEN a ELSE b
OctetLess(a, b) ==
    \/ \E i \in 1..Min2(Len(a), Len(b)) :
          /\ a[i] < b[i]
          /\ \A j \in 1..(i - 1) : a[j] = b[j]
    \/ /\ Len(a) < Len(b)
       /\ \A j \in 1..Len(a) : a[j] = b[j]

RdataLess(t, r1, r2) == OctetLess(CanonWire(t, r1), CanonWire(t, r2))

\* RFC 4034 6.3: the distinct RRs (duplicates removed), as canonical RDATA octet strings
\* `recs` is a sequence of records [ttl |-> <<4 octets>>, rd |-> rdata]; the received TTL
\* plays no role (RFC 4034 6.2 item 5: the Original TTL is used)
CanonSet(t, recs) == {CanonWire(t, recs[i].rd) : i \in 1..Len(recs)}
CanonSeq(t, recs) == SetToSortSeq(CanonSet(t, recs), OctetLess)

(***************************************************************************)
(* The owner name of RFC 4035 5.3.2.                                       *)
(*   rrsig_labels = fqdn_labels  -> the owner                              *)
(*   rrsig_labels < fqdn_labels  -> "*." | rightmost rrsig_labels labels   *)
(*   rrsig_labels > fqdn_labels  -> the RRSIG MUST NOT be used             *)
(* always lower-cased (RFC 4034 6.2 item 2).                               *)
(***************************************************************************)
Rightmost(n, k) == SubSeq(n, Len(n) - k + 1, Len(n))
LabelsTooMany(owner, labels) == labels > Len(owner)
SignedOwner(owner, labels) ==
    IF labels = Len(owner) THEN LowerName(owner)
    ELSE LowerName(<<STAR>> \o Rightmost(owner, labels))

\* RFC 4034 3.1.3 counts the labels of the owner without a leading "*" label, RFC 4035
\* 5.3.2 speaks of "the label count of the fqdn": for an owner that itself starts with "*"
\* and Labels = all its labels including the "*", the texts can be read both ways (use the
\* owner as it is / MUST NOT be used).  Both outcomes are accepted at exactly this corner.
LabelsAmbiguous(owner, labels) ==
    Len(owner) > 0 /\ owner[1] = STAR /\ labels = Len(owner)

\* RFC 4034 3.1.3: the value a signer puts into the Labels field
SignerLabels(owner) == IF Len(owner) > 0 /\ owner[1] = STAR THEN Len(owner) - 1 ELSE Len(owner)

(***************************************************************************)
(* RFC 4035 5.3.2.  sig = [tc, alg, labels, ottl, exp, inc, tag, signer]   *)
(* with tc, tag naturals < 65536, alg, labels octets, ottl/exp/inc four    *)
(* octets each, signer a name.                                             *)
(***************************************************************************)
SigPrefixFields(sig) ==
    << B(U16(sig.tc) \o <<sig.alg, sig.labels>> \o sig.ottl \o sig.exp \o sig.inc \o U16(sig.tag)),
       N(LowerName(sig.signer)) >>

RRFields(owner, class, sig, rdw) ==
    << N(SignedOwner(owner, sig.labels)),
       B(U16(sig.tc) \o U16(class) \o sig.ottl \o U16(Len(rdw))),
       B(rdw) >>

\* the signed data as a list of fields (for reading) and as octets (what is signed)
SignedFields(owner, class, recs, sig) ==
    LET cs == CanonSeq(sig.tc, recs) IN
    SigPrefixFields(sig) \o FlattenSeq([i \in 1..Len(cs) |-> RRFields(owner, class, sig, cs[i])])

SignedData(owner, class, recs, sig) == WireFields(SignedFields(owner, class, recs, sig))

\* What an implementation may hand to the crypto for (owner, class, recs, sig): "err" (no
\* signed data exists) or the octets.
SignedOutcomes(owner, class, recs, sig) ==
    IF LabelsTooMany(owner, sig.labels) THEN {[res |-> "err", tbs |-> <<>>]}
    ELSE {[res |-> "ok", tbs |-> SignedData(owner, class, recs, sig)]}
         \cup (IF LabelsAmbiguous(owner, sig.labels) THEN {[res |-> "err", tbs |-> <<>>]} ELSE {})
=============================================================================
