SPECIFICATION GSpec
CONSTANTS
  InLens  = <<1,2>>
  OutLens = <<1>>
  InMsgs  <- G_InMsgs
  OutMsgs <- G_OutMsgs
  ChunkSet <- GChunk
  CloseSet <- G_CloseSet
  MaxPending = 1
INVARIANT Emit
CONSTRAINT Bound
CHECK_DEADLOCK FALSE
