------------------------------- MODULE Gen_Tsig -------------------------------
(* Case generator for C13 (obligation R): every applicable request description *)
(* and policy with what the specification allows.                              *)
EXTENDS Tsig, Json

\* tampers that need an UPDATE body to be applied to
Applicable(x) == x.tamper \in {"count", "prereq", "update"} => x.op = "update"
\* a tamper on TSIG fields or a MAC truncation needs a TSIG record
NeedsSig(x) == (x.tamper \in {"tsigTime", "tsigFudge", "tsigOrigId", "tsigError", "tsigOther", "macBit"}) => x.signed

Case == [r |-> r, p |-> p, mayEffect |-> MayEffect(r, p), honoured |-> Honoured(r, p),
         authentic |-> Authentic(r, p),
         mustSignReply |-> ReplyMustBeSigned(r, p), verified |-> Verified(r)]
Emit == (pc = "policy" /\ Applicable(r) /\ NeedsSig(r)) => PrintT(<<"REPLAY", ToJson(Case)>>)
\* only the initial states are needed
Stop == FALSE
=============================================================================
