----------------------------- MODULE Trace_Nsec3 -----------------------------
(* Trace validation for C09 (obligation T: impl -> spec), monitor style.      *)
(* Events recorded from the real code (harness/src/bin/drive_nsec3):          *)
(*   reset   case, apex, zone=[{n, ty}], oo, iter                             *)
(*   verify  origin, q, t, kind, ce, zn, soft, hard, verdict [, full]         *)
(*           proof = [{oh, nh, types, optout, params={id,iter}, zone}]        *)
(*           ht    = {id: [[name, hash], ...]}  real hashes (first 60 bits as *)
(*                   two 30-bit numbers) of q, its ancestors and the          *)
(*                   wildcards at them, under every parameter set in proof    *)
(*       origin = "forged" | "prescribed" | "server"  (as in Trace_Nsec)      *)
(* Judged per event with the operators of Nsec3Ops:                           *)
(*   iteration limits  above hard => Bogus, above soft => not Secure          *)
(*   soundness         Secure => Entails3                                     *)
(*   completeness      prescribed proof / hickory's own server's proof of a   *)
(*                     negative or wildcard response, if it is a full         *)
(*                     RFC 5155 8 proof => Secure (a proof resting on Opt-Out *)
(*                     records for something else than DS carries no such     *)
(*                     demand)                                                *)
EXTENDS Nsec3Ops, TLC, Json, IOUtils, FiniteSets

Rec == ndJsonDeserialize(IOEnv.TRACE)

VARIABLES l, apex, zone, cid
tvars == <<l, apex, zone, cid>>

SetOf(s) == { s[i] : i \in DOMAIN s }
ZoneOf(zs) ==
    LET names == { zs[i].n : i \in DOMAIN zs } IN
    [ n \in names |-> UNION { SetOf(zs[i].ty) : i \in { j \in DOMAIN zs : zs[j].n = n } } ]
ProofOf(ps) ==
    { [oh |-> ps[i].oh, nh |-> ps[i].nh, types |-> SetOf(ps[i].types), optout |-> ps[i].optout,
       params |-> ps[i].params, zone |-> ps[i].zone] : i \in DOMAIN ps }
\* {id: [[name, hash], ...]} -> [id |-> [name |-> hash]]
TableOf(rows) == [ n \in { rows[i][1] : i \in DOMAIN rows } |-> rows[CHOOSE i \in DOMAIN rows : rows[i][1] = n][2] ]
HTof(x) == [ id \in DOMAIN x |-> TableOf(x[id]) ]

Init == l = 1 /\ apex = <<>> /\ zone = <<>> /\ cid = "none"
e == Rec[l]

Reset ==
    /\ e.ev = "reset"
    /\ apex' = e.apex /\ zone' = ZoneOf(e.zone) /\ cid' = e.case

InScope(ev) == ev.kind \in {"nxdomain", "nodata", "wild"}
HasZone == apex \in DOMAIN zone

PofE(ev)  == ProofOf(ev.proof)
HTE(ev)   == HTof(ev.ht)
Known(ev) == \A r \in PofE(ev) : r.params.id \in DOMAIN ev.ht
EntE(ev)  == InScope(ev) /\ Known(ev) /\ Entails3(PofE(ev), HTE(ev), ev.q, ev.t, ev.kind, ev.ce, ev.zn)
OpenE(ev) == InScope(ev) /\ Known(ev) /\ OpenDsCase3(PofE(ev), HTE(ev), ev.q, ev.t, ev.kind)
SkE(ev)   == IF ev.origin = "server" /\ HasZone THEN ServerKind(zone, apex, ev.q, ev.t) ELSE "none"
Within(ev) == \A r \in PofE(ev) : r.params.iter <= ev.soft
FullOf(ev) == IF "full" \in DOMAIN ev THEN ev.full ELSE "n/a"
\* the proof is a full one but for an Opt-Out record used for something else than DS
OnlyOptOutMissing(ev) ==
    InScope(ev) /\ Known(ev) /\ Entails3X(PofE(ev), HTE(ev), ev.q, ev.t, ev.kind, ev.ce, ev.zn, {"optout-cover-for-any-claim"})

LimitsE(ev) ==
    /\ IterLimitsOk(PofE(ev), ev.soft, ev.hard, ev.verdict)
    /\ (ev.origin = "server" /\ \E r \in PofE(ev) : r.params.iter > ev.soft) => FullOf(ev) # "Secure"
SoundE(ev) ==
    /\ (ev.verdict = "Secure" /\ InScope(ev)) => (EntE(ev) \/ OpenE(ev))
    /\ (ev.origin = "server" /\ InScope(ev) /\ FullOf(ev) = "Secure" /\ Len(ev.proof) > 0) => (EntE(ev) \/ OpenE(ev))
CompleteE(ev) ==
    CASE ev.origin = "prescribed" -> (EntE(ev) /\ Within(ev)) => ev.verdict = "Secure"
      [] ev.origin = "server" /\ SkE(ev) # "none" /\ Within(ev) ->
            IF EntE(ev) \/ OpenE(ev) THEN ev.verdict = "Secure" /\ FullOf(ev) = "Secure"
            \* as Nsec3.C09_CompleteOptOut: only an Opt-Out record can keep a genuine proof from being a
            \* full one (Opt-Out may hide the empty non-terminals and delegations a full proof needs)
            ELSE \E r \in PofE(ev) : r.optout
      [] OTHER -> TRUE
OkE(ev) == ev.verdict # "PANIC" /\ LimitsE(ev) /\ SoundE(ev) /\ CompleteE(ev)

Explain(ev) ==
    LET P == PofE(ev)
        \* the smallest sets of dropped clauses under which the proof would have been accepted; the two
        \* broadest clauses are only drawn upon when the others do not suffice
        ExplK(R, k) == { S \in SUBSET R : Cardinality(S) = k /\ Entails3X(P, HTE(ev), ev.q, ev.t, ev.kind, ev.ce, ev.zn, S) }
        MinIn(R) == LET ks == { k \in 1..Cardinality(R) : ExplK(R, k) # {} } IN
                    IF ks = {} THEN {} ELSE ExplK(R, CHOOSE k \in ks : \A j \in ks : k <= j)
        R1 == Lax3Rules \ {"last-nsec3-covers-everything", "zone-unchecked-without-soa"}
        R2 == Lax3Rules \ {"last-nsec3-covers-everything"}
        minimal == IF SoundE(ev) \/ ~Known(ev) THEN {}
                   ELSE IF MinIn(R1) # {} THEN MinIn(R1)
                   ELSE IF MinIn(R2) # {} THEN MinIn(R2)
                   ELSE MinIn(Lax3Rules)
    IN  [limits |-> LimitsE(ev), sound |-> SoundE(ev), complete |-> CompleteE(ev), entails |-> EntE(ev),
         known |-> Known(ev), within |-> Within(ev),
         expectedKind |-> SkE(ev),
         lookup |-> IF HasZone THEN Lookup(zone, apex, ev.q, ev.t) ELSE "n/a",
         ent |-> HasZone /\ ev.q \notin DOMAIN zone /\ Exists(zone, apex, ev.q),
         usesOptOut |-> \E r \in P : r.optout,
         onlyOptOutMissing |-> OnlyOptOutMissing(ev),
         noProof |-> Len(ev.proof) = 0,
         explainedByMin |-> minimal,
         explainedByAll |-> minimal # {}]

Check ==
    /\ e.ev = "verify"
    /\ \/ OkE(e)
       \/ ~OkE(e) /\ PrintT(<<"MISMATCH", ToJson([case |-> cid, line |-> l,
                                                  event |-> [x \in DOMAIN e \ {"ht"} |-> e[x]], judge |-> Explain(e)])>>)
    /\ UNCHANGED <<apex, zone, cid>>

(* Audit of the published chain (event "chain": published = every NSEC3 record *)
(* of the signed zone, ht = real hashes of every name that may have an entry): *)
(* it must be the chain the specification derives from the zone (Chain3):      *)
(* one record per authoritative owner and per empty non-terminal above one,    *)
(* bitmap = the types at the name (empty only for empty non-terminals),        *)
(* Opt-Out delegations left out, next = successor in hash order.  Every        *)
(* soundness judgement above takes the published records as genuine facts      *)
(* about the zone, and every completeness judgement takes the chain as given.  *)
PubRec(x) == [oh |-> x.oh, nh |-> x.nh, types |-> SetOf(x.types), optout |-> x.optout]
ChainPub(ev) == { PubRec(ev.published[i]) : i \in DOMAIN ev.published }
AuditH(ev)   == TableOf(ev.ht) @@ <<>>
ChainExp(ev) == Chain3(zone, apex, ev.oo, AuditH(ev), [id |-> "audit", iter |-> 0])
Proj3(r)     == [oh |-> r.oh, nh |-> r.nh, types |-> r.types, optout |-> r.optout]
ChainCheck ==
    /\ e.ev = "chain" /\ HasZone
    /\ LET pub == ChainPub(e)
           exp == ChainExp(e)
           H   == AuditH(e)
           missing == { r \in exp : Proj3(r) \notin pub }
           extra   == { x \in pub : x \notin { Proj3(r) : r \in exp } } IN
       \/ missing = {} /\ extra = {}
       \/ ~(missing = {} /\ extra = {}) /\
          PrintT(<<"MISMATCH", ToJson([case |-> cid, line |-> l, event |-> [ev |-> "chain", origin |-> "audit", oo |-> e.oo],
                  judge |-> [missing |-> { [name |-> r.on, next |-> r.nn, types |-> r.types] : r \in missing },
                             extra |-> { [names |-> { n \in DOMAIN H : H[n] = x.oh },
                                          nextNames |-> { n \in DOMAIN H : H[n] = x.nh }, types |-> x.types,
                                          optout |-> x.optout] : x \in extra }]])>>)
    /\ UNCHANGED <<apex, zone, cid>>

Next == l <= Len(Rec) /\ l' = l + 1 /\ (Reset \/ Check \/ ChainCheck)
TraceSpec == Init /\ [][Next]_tvars

Consumed ==
    LET d == TLCGet("stats").diameter IN
    IF d - 1 = Len(Rec) THEN PrintT(<<"TRACE-CONSUMED", Len(Rec)>>)
    ELSE PrintT(<<"TRACE-STUCK", d, Len(Rec)>>) /\ FALSE
=============================================================================
