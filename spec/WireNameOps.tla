----------------------------- MODULE WireNameOps -----------------------------
(* The meaning of a domain name inside a message (RFC 1035 3.1, 4.1.4),       *)
(* written as a declarative recursion -- no state machine, no reference to    *)
(* the code.  Constant-free.  A buffer is a sequence of octets; offsets are   *)
(* 0-based as on the wire.                                                    *)
(*                                                                            *)
(* A name at offset `at` is a run of labels (length octet 1..63 followed by   *)
(* that many octets) ended by the root octet 0 or by a pointer (two octets,   *)
(* top bits 11, 14-bit offset) to a PRIOR occurrence of a name: the pointed-  *)
(* to run must lie entirely before the start of the run that points to it.    *)
(* Top bits 01 and 10 are reserved.  The whole name, as label octets plus one *)
(* length octet each plus the root, must not exceed 255 octets.               *)
EXTENDS Naturals, Sequences

Err(why) == [ok |-> FALSE, why |-> why, labels |-> <<>>, next |-> 0]
OkR(labels, next) == [ok |-> TRUE, why |-> "", labels |-> labels, next |-> next]

At(buf, i) == buf[i + 1]              \* octet at 0-based offset i

\* Run(buf, at, runStart, limit): decode the run of labels that started at runStart, currently
\* at offset `at`; every length / pointer / root octet of the run must lie before `limit`
\* (the start of the run that pointed here, or Len(buf) + 1 for the outermost run).
\* Result: labels of the rest of the name and `next` = offset just behind this run's own octets.
RECURSIVE Run(_, _, _, _)
Run(buf, at, runStart, limit) ==
    IF at >= limit THEN Err("overlap")
    ELSE IF at >= Len(buf) THEN Err("short")
    ELSE LET b == At(buf, at) IN
         IF b = 0 THEN OkR(<<>>, at + 1)
         ELSE IF b >= 192 THEN
              IF at + 1 >= Len(buf) THEN Err("short")
              ELSE LET target == (b - 192) * 256 + At(buf, at + 1) IN
                   IF target >= runStart THEN Err("pointer-not-prior")
                   ELSE LET r == Run(buf, target, target, runStart) IN
                        IF r.ok THEN OkR(r.labels, at + 2) ELSE r
         ELSE IF b >= 64 THEN Err("reserved")
         ELSE IF at + 1 + b > Len(buf) THEN Err("short")
         ELSE LET r == Run(buf, at + 1 + b, runStart, limit) IN
              IF r.ok THEN OkR(<<SubSeq(buf, at + 2, at + 1 + b)>> \o r.labels, r.next) ELSE r

RECURSIVE SumLen(_, _)
SumLen(ls, i) == IF i > Len(ls) THEN 0 ELSE Len(ls[i]) + SumLen(ls, i + 1)
NameWireLen(ls) == Len(ls) + SumLen(ls, 1) + 1

\* the name found at offset `at` of message `buf`
DecodeName(buf, at) ==
    LET r == Run(buf, at, at, Len(buf) + 1) IN
    IF ~r.ok THEN r
    ELSE IF NameWireLen(r.labels) > 255 THEN Err("too-long")
    ELSE r

\* requirement-level facts about any successfully decoded name (C01's last sentence)
C01_Limits(labels) == NameWireLen(labels) <= 255 /\ \A i \in 1..Len(labels) : Len(labels[i]) \in 1..63
=============================================================================
