\* transport-level behaviours: refused / black-holed / slow TCP connects, idle-closed connections, slow replies
SPECIFICATION Spec
CONSTANTS
  Configs <- MC_Sock
  NCallers = 2
  Gaps <- MC_Gaps
  Backoff0 = 20
  BackoffCap = 300
  DeadlineRule = "required"
  UdpRule = "required"
INVARIANTS TypeOK C18_Deadline C18_FindsHealthy C18_TcpRetry C18_UntrustedNxContinues C18_SharedOnce C18_MapCleaned
CHECK_DEADLOCK FALSE
