--------------------------- MODULE Trace_ZoneFile ---------------------------
(* Trace validation for C20 (obligation T: impl -> spec), monitor style.      *)
(* Every event is its own case (pure decision procedure):                     *)
(*   load   text, origin, out=[st, recs]   a text that went through the real  *)
(*          Parser; the monitor reads the text with ZoneFile!Read and allows  *)
(*            out.st = ok  with exactly the denoted records   if Read = ok    *)
(*            out.st = err                                     if Read = err   *)
(*            out.st = ok or err                               if Read = unspec*)
(*          and never PANIC or HANG (C20_Total);                              *)
(*   total  len, out=[st]      a text too long to be read here: only totality *)
EXTENDS ZoneFile, TLC, Json, IOUtils

Rec == ndJsonDeserialize(IOEnv.TRACE)

VARIABLES l, bad
tvars == <<l, bad>>

e == Rec[l]
ObsRecs == {e.out.recs[i] : i \in DOMAIN e.out.recs}

Allowed(r) ==
    CASE r.st = "ok"  -> e.out.st = "ok" /\ ObsRecs = r.recs
      [] r.st = "err" -> e.out.st = "err"
      [] OTHER        -> e.out.st \in {"ok", "err"}

Judge(r) ==
    IF Allowed(r) THEN bad' = bad
    ELSE /\ PrintT(<<"MISMATCH", ToJson([case |-> e.case, line |-> l, kind |-> e.kind, text |-> e.text,
                                         observed |-> e.out, expected |-> [st |-> r.st, recs |-> r.recs, why |-> r.why],
                                         tags |-> r.tags])>>)
         /\ bad' = bad + 1

Load  == e.ev = "load" /\ Judge(IF e.text = "" THEN ReadChars(<<>>, e.origin) ELSE Read(e.text, e.origin))
Total == /\ e.ev = "total"
         /\ IF e.out.st \in {"ok", "err"} THEN bad' = bad
            ELSE /\ PrintT(<<"MISMATCH", ToJson([case |-> e.case, line |-> l, kind |-> e.kind, text |-> "",
                                                 observed |-> e.out, expected |-> [st |-> "ok-or-err", recs |-> {}, why |-> "totality"],
                                                 tags |-> {}])>>)
                 /\ bad' = bad + 1

Init == l = 1 /\ bad = 0
Next == l <= Len(Rec) /\ l' = l + 1 /\ (Load \/ Total)
TraceSpec == Init /\ [][Next]_tvars

Consumed ==
    LET d == TLCGet("stats").diameter IN
    IF d - 1 = Len(Rec) THEN PrintT(<<"TRACE-CONSUMED", Len(Rec)>>)
    ELSE PrintT(<<"TRACE-STUCK", d, Len(Rec)>>) /\ FALSE
=============================================================================
