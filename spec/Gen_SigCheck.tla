--------------------------- MODULE Gen_SigCheck ---------------------------
(* History generator for C06 (obligation R: spec -> impl).                  *)
(* Enumerates environment histories -- calls Validate(rr, sig, key, rttl)   *)
(* with single-field variants, clock moves in between -- from every start   *)
(* clock of ClkStarts, and prints each complete history once as a REPLAY    *)
(* line.  Every call carries what the requirements of SigCheck say about    *)
(* it (they are functions of the observable history only):                  *)
(*   may     the call may return Secure (MaySecure, with `estab` of the     *)
(*           history so far)                                                *)
(*   ttlmax  the largest TTL a Secure record may then carry (TtlMax)        *)
(*   fresh   the verdict of the RFC 4035 5.3 procedure run without a cache  *)
(*           (informational: used by the driver as a witness that Secure    *)
(*           is reachable at all, never judged)                             *)
(* Times are small naturals far below M/2, so serial comparison and plain   *)
(* comparison agree in the model; the driver places them on the 32-bit ring *)
(* at three bases (mid-range, straddling 2^31, straddling the 2^32 wrap).   *)
EXTENDS SigRules, TLC, Json

CONSTANTS MaxLog, MaxVariantCalls,
          Kinds,    \* what kind of RRset the history is run on: "data" (an ordinary RRset signed by the zone
                    \* key) or "dnskey" (the zone's DNSKEY RRset, signed by its DS-matched key signing key
                    \* under a DS chain).  The requirements do not depend on it.
          Cfgs      \* validation-cache TTL configurations of the validator to run the history under:
                    \* "none" (default), "minAbove" (minimum above any signature lifetime of the case),
                    \* "maxBelow" (maximum of one second).  The requirements do not depend on it.

VARIABLES gclk, gest, glog, gnvar, gcfg, gkind

gvars == <<gclk, gest, glog, gnvar, gcfg, gkind>>

IsVariant(a) == a.rr # "genuine" \/ a.sig # "genuine" \/ a.key # "genuine"
NCalls == Cardinality({i \in 1..Len(glog) : glog[i].op = "v"})

GInit == gclk \in ClkStarts /\ gest = FALSE /\ glog = <<>> /\ gnvar = 0 /\ gcfg \in Cfgs /\ gkind \in Kinds

GCall(a) ==
    /\ a \in ArgSet /\ Len(glog) < MaxLog /\ NCalls < MaxCalls
    /\ IsVariant(a) => gnvar < MaxVariantCalls
    /\ gnvar' = IF IsVariant(a) THEN gnvar + 1 ELSE gnvar
    /\ glog' = Append(glog, [op |-> "v", rr |-> a.rr, sig |-> a.sig, key |-> a.key, rttl |-> a.rttl,
                             clk |-> gclk,
                             may |-> MaySecure(a, gclk, gest),
                             why |-> [signed |-> RrSignedGenuine(a.rr) /\ RrBelongs(a.rr) /\ SigSignedGenuine(a.sig),
                                      key |-> (HasZoneKey(a.key) \/ gest),
                                      window |-> MayBeInWindow(Inc, Exp, gclk)],
                             ttlmax |-> TtlMax(gclk),
                             stray |-> HasStray(a), mayStray |-> MayStraySecure,
                             fresh |-> IF FreshSecure(a, gclk) THEN "Secure" ELSE "NotSecure"])
    /\ gest' = (gest \/ Establishes(a, gclk))
    /\ UNCHANGED <<gclk, gcfg, gkind>>

GAdvance(d) ==
    /\ d \in Steps /\ Len(glog) < MaxLog - 1
    /\ glog # <<>> /\ glog[Len(glog)].op = "v"      \* time passes between calls only
    /\ gclk' = (gclk + d) % M
    /\ glog' = Append(glog, [op |-> "adv", d |-> d])
    /\ UNCHANGED <<gest, gnvar, gcfg, gkind>>

GNext == (\E a \in ArgSet : GCall(a)) \/ (\E d \in Steps : GAdvance(d))
GSpec == GInit /\ [][GNext]_gvars

\* a history is complete when it ends with a call (every non-empty prefix ending in a call
\* is emitted: prefixes are histories too, but the driver only needs the maximal ones and
\* those whose last call is a variant)
Complete == glog # <<>> /\ glog[Len(glog)].op = "v"

Case == [cfg |-> gcfg, kind |-> gkind, start |-> glog[1].clk, inc |-> Inc, exp |-> Exp, incAlt |-> IncAlt, expAlt |-> ExpAlt,
         origTtl |-> OrigTtl, origTtlAlt |-> OrigTtlAlt, nameCaseSigned |-> NameCaseSigned, log |-> glog]

Emit == Complete => PrintT(<<"REPLAY", ToJson(Case)>>)
=============================================================================
