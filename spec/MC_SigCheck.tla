---------------------------- MODULE MC_SigCheck ----------------------------
(* Exhaustive configurations for SigCheck (C06, obligation D).              *)
(* Ring of 32 serial numbers (half range 16); the genuine window wraps      *)
(* around the end of the ring: [30, 5].                                     *)
EXTENDS SigCheck

MC_RecTtls == {1, 4, 9}

\* every single-field variant, one call, every clock value of the ring: the per-call logic
MCV_RRV   == AllRRV
MCV_SIGV  == AllSIGV
MCV_KEYV  == AllKEYV
MCV_Args  == PropertyArgs
MCV_Starts == 0..31
MCV_Steps == {1}

\* histories: time passing between calls, a small set of arguments that share or nearly
\* share cache keys
MCH_RRV   == {"genuine", "rdataBit", "rdataNameCase", "addOtherClass", "addForgedTwice"}
MCH_SIGV  == {"genuine", "exp", "forged", "twoSigs", "swapSigs", "junkSignerFirst", "junkSignerLast"}
MCH_KEYV  == {"genuine", "otherKey", "childKey", "revokedAnchor"}
G(t)      == [rr |-> "genuine", sig |-> "genuine", key |-> "genuine", rttl |-> t]
MCH_Args  == {G(1), G(4), G(9), [G(4) EXCEPT !.rr = "rdataNameCase"], [G(4) EXCEPT !.rr = "rdataBit"],
              [G(9) EXCEPT !.sig = "exp"], [G(4) EXCEPT !.key = "otherKey"], [G(9) EXCEPT !.rr = "addOtherClass"],
              [G(4) EXCEPT !.sig = "forged", !.key = "childKey"], [G(4) EXCEPT !.rr = "addForgedTwice"],
              [G(4) EXCEPT !.sig = "twoSigs"], [G(4) EXCEPT !.sig = "swapSigs"],
              [G(4) EXCEPT !.sig = "forged", !.key = "revokedAnchor"],
              [G(4) EXCEPT !.sig = "junkSignerFirst"], [G(9) EXCEPT !.sig = "junkSignerLast"]}
MCH_Starts == {29, 30, 1, 5, 6}
MCH_Steps == {1, 3, 8}
\* three calls
MCH3_Args  == {G(4), G(9), [G(9) EXCEPT !.sig = "exp"]}
MCH3_Steps == {2, 5}

\* negated witnesses: TLC must find them reachable (expected-to-fail configurations)
NotUnsignedBitsFree == ~C06_UnsignedBitsFree_Witness
NotCachedSecure     == ~C06_CachedSecure_Witness
=============================================================================
