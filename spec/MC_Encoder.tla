----------------------------- MODULE MC_Encoder -----------------------------
EXTENDS Encoder
MC_Sizes == [an |-> <<23, 40, 12>>, ns |-> <<40, 12>>, ar |-> <<12, 23>>]
MC_Cases == {[q |-> q, sizes |-> MC_Sizes, opt |-> o, tsig |-> t, tc0 |-> tc] :
                q \in {0, 5}, o \in BOOLEAN, t \in BOOLEAN, tc \in BOOLEAN}
MC_Limits == 0..230
=============================================================================
