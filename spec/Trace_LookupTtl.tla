-------------------------- MODULE Trace_LookupTtl --------------------------
(* C15 through the resolver (obligation T: impl -> spec), monitor style.     *)
(* "... every TTL it reports equals the per-type clamped stored TTL minus    *)
(* the whole seconds elapsed (floored at zero) and never increases between   *)
(* refreshes" -- judged on what Resolver::lookup / lookup_ip hand to the      *)
(* caller (first answers, cache hits, re-lookups after expiry; the merged    *)
(* results of the dual-stack strategies), including Lookup::valid_until().   *)
(* Events recorded by `drive_stub ttl` (real Resolver over a scripted        *)
(* upstream, tokio's paused clock, ticks of half a second):                  *)
(*   reset   case api strategy cfg plan   a fresh resolver; cfg = [pmin,     *)
(*                                pmax] in seconds, -1 = not configured      *)
(*   lookup  case api strategy cfg t asked kind recs ttls validFor           *)
(*           t        tick of the call (= of its completion: no latency)     *)
(*           asked    record types sent upstream during this call            *)
(*           recs     for every record of the result, in result order: its   *)
(*                    identity id, type, the TTL it was received with, the   *)
(*                    tick `at` it was received (= stored), and rr = the     *)
(*                    received TTLs of all records of that response          *)
(*           ttls     the TTLs the result reports, in the same order         *)
(*           validFor whole seconds (floor) from now to valid_until()        *)
(* Judged with the operators of CacheOps (the ones Cache.tla is checked      *)
(* against):                                                                 *)
(*   ttl-wrong         reported # Countdown(clamped received TTL, whole      *)
(*                     seconds since `at`)                                   *)
(*   ttl-increased     a record reports more than it did before (same id =   *)
(*                     same refresh)                                         *)
(*   served-late       a record received before this call is handed out      *)
(*                     later than at + lifetime of its entry                 *)
(*   valid-until-too-late   validFor exceeds the remaining lifetime, in the  *)
(*                     property's whole-second count, of some entry the      *)
(*                     result is made of                                     *)
(*   valid-until-in-the-past  validFor < 0                                   *)
(* The resolver configures one pair of positive bounds for all types, so     *)
(* "the bounds of the query type it was fetched under" are cfg.def.  There   *)
(* are no aliases in this mode (for CNAME folding see Trace_Cache `chain`).  *)
EXTENDS CacheOps, TLC, Json, IOUtils

Rec == ndJsonDeserialize(IOEnv.TRACE)

VARIABLES l, caseId, last, skipping
tvars == <<l, caseId, last, skipping>>

Empty == [x \in {} |-> 0]
Init == l = 1 /\ caseId = "none" /\ last = Empty /\ skipping = FALSE

e == Rec[l]

Reset == e.ev = "reset" /\ caseId' = e.case /\ last' = Empty /\ skipping' = FALSE

Cfg ==
    [def |-> [pmin |-> IF e.cfg.pmin < 0 THEN 0 ELSE e.cfg.pmin, pmax |-> IF e.cfg.pmax < 0 THEN MaxTtl ELSE e.cfg.pmax,
              nmin |-> 0, nmax |-> MaxTtl],
     byType |-> Empty]

N == Len(e.recs)
R(i) == e.recs[i]
AsRec(type, ttl) == [sec |-> "an", type |-> type, ttl |-> ttl]
\* the lifetime of the cache entry record i belongs to: smallest TTL of the response's records
\* (all of the query type), clamped by the query type's bounds
Life(i) == PosLifeHi(Cfg, [name |-> "t", type |-> R(i).type], [k \in 1..Len(R(i).rr) |-> AsRec(R(i).type, R(i).rr[k])])
Expected(i) == Countdown(StoredTtl(Cfg, AsRec(R(i).type, R(i).ttl)), ElapsedSecs(R(i).at, e.t))
\* what is left of that lifetime, counted like the TTLs: whole seconds elapsed
Remaining(i) == Countdown(Life(i), ElapsedSecs(R(i).at, e.t))

Harness ==
    IF Len(e.ttls) # N THEN {"harness:ttls-and-recs-differ-in-length"}
    ELSE IF \E i \in 1..N : R(i).id = "unknown" THEN {"harness:record-not-from-the-script"}
    ELSE IF \E i \in 1..N : R(i).at > e.t THEN {"harness:received-in-the-future"}
    ELSE IF \E i \in 1..N : R(i).at = e.t /\ ~(\E j \in DOMAIN e.asked : e.asked[j] = R(i).type) /\ ~(R(i).id \in DOMAIN last)
         THEN {"harness:fresh-record-without-question"}
    ELSE {}

LookupProblems ==
    IF e.kind = "PANIC" THEN {"panic"}
    ELSE IF e.kind # "ok" THEN {}
    ELSE IF Harness # {} THEN Harness
    ELSE (IF \E i \in 1..N : e.ttls[i] # Expected(i) THEN {"ttl-wrong"} ELSE {})
         \cup (IF \E i \in 1..N : R(i).id \in DOMAIN last /\ e.ttls[i] > last[R(i).id] THEN {"ttl-increased"} ELSE {})
         \cup (IF \E i \in 1..N : R(i).at < e.t /\ Late(R(i).at, e.t, Life(i)) THEN {"served-late"} ELSE {})
         \cup (IF N > 0 /\ \E i \in 1..N : e.validFor > Remaining(i) THEN {"valid-until-too-late"} ELSE {})
         \cup (IF e.validFor < 0 THEN {"valid-until-in-the-past"} ELSE {})

Detail ==
    IF e.kind = "ok" /\ Harness = {}
    THEN [expected |-> [i \in 1..N |-> Expected(i)], life |-> [i \in 1..N |-> Life(i)], remaining |-> [i \in 1..N |-> Remaining(i)]]
    ELSE [expected |-> <<>>]

Problems == IF e.ev = "lookup" THEN LookupProblems ELSE {"harness:unknown-event"}

Update ==
    IF e.ev = "lookup" /\ e.kind = "ok"
    THEN last' = [x \in DOMAIN last \cup {R(i).id : i \in 1..N} |->
                     IF \E i \in 1..N : R(i).id = x THEN e.ttls[CHOOSE i \in 1..N : R(i).id = x] ELSE last[x]]
    ELSE last' = last

Matched == ~skipping /\ e.ev # "reset" /\ Problems = {} /\ Update /\ UNCHANGED <<caseId, skipping>>

Reject ==
    /\ ~skipping /\ e.ev # "reset" /\ Problems # {}
    /\ PrintT(<<"MISMATCH", ToJson([case |-> caseId, line |-> l, event |-> e, problems |-> Problems, detail |-> Detail])>>)
    /\ skipping' = TRUE /\ UNCHANGED <<caseId, last>>

Skip == skipping /\ e.ev # "reset" /\ UNCHANGED <<caseId, last, skipping>>

Next == l <= Len(Rec) /\ l' = l + 1 /\ (Reset \/ Matched \/ Reject \/ Skip)

TraceSpec == Init /\ [][Next]_tvars

Consumed ==
    LET d == TLCGet("stats").diameter IN
    IF d - 1 = Len(Rec) THEN PrintT(<<"TRACE-CONSUMED", Len(Rec)>>)
    ELSE PrintT(<<"TRACE-STUCK", d, Len(Rec)>>) /\ FALSE
=============================================================================
