---------------------------- MODULE Trace_Grammar ----------------------------
(* Trace validation for C01 and C02 over the record grammar (obligation T).    *)
(* One event per case, recorded from the real decoders:                        *)
(*   g  case type code tags ctx len rdlen recEnd                               *)
(*      msg   = Message::from_vec          out err fix rdataSame limits present*)
(*      req   = server::Request::from_bytes out                                *)
(*      rec   = Record::read at the record  out next limits                    *)
(*      rdata = RData::read on the RDATA    out                                *)
(*      cpuUs = thread CPU time of the four calls                              *)
(* The monitor looks the case up in the grammar (same tables as the generator) *)
(* and judges:                                                                 *)
(*  C01  no entry point panics or hangs; every call stays within a CPU budget  *)
(*       linear in the message length; no decoded name breaks the 63/255       *)
(*       limits                                                                *)
(*  C02  a record the grammar calls well-formed in its context is accepted by  *)
(*       every entry point, Record::read stops exactly behind it, and (for     *)
(*       types without compressible names) the re-encoding reproduces its      *)
(*       RDATA octet for octet; whatever Message::from_vec accepts re-encodes  *)
(*       to bytes that decode to an equal message                              *)
EXTENDS GrammarOps, Json, IOUtils

Rec == ndJsonDeserialize(IOEnv.TRACE)
VARIABLES l
Init == l = 1
e == Rec[l]

Budget(len) == 50000 + 10 * len          \* microseconds of CPU; HEAD needs < 100

Safe(x) == x.out \notin {"PANIC", "HANG"}

Ty == TypeIx(e.code)
Pick == PickOf(Ty, e.tags)
IsTlv == e.kind = "tlv"
MustAccept == IF e.kind \in {"trunc", "code"} THEN FALSE ELSE IF IsTlv THEN TlvMust(e.tlv.carrier, e.tlv.items, e.tlv.stray, e.ctx) ELSE Must(Ty, Pick, e.ctx)
Bytes == BytePreserved(e.code) /\ (IsTlv \/ ~HasPtr(Prims(Ty, Pick)))

Problems ==
    (IF ~(Safe(e.msg) /\ Safe(e.req) /\ Safe(e.rec) /\ Safe(e.rdata)) THEN {"panic-or-hang"} ELSE {})
    \cup (IF \E i \in 1..4 : e.cpuUs[i] > Budget(e.len) THEN {"decode-too-slow"} ELSE {})
    \cup (IF ~e.msg.limits \/ ~e.rec.limits THEN {"name-limits-exceeded"} ELSE {})
    \cup (IF MustAccept /\ (e.msg.out = "err" \/ e.rec.out = "err" \/ e.rdata.out = "err" \/ e.req.out = "err")
          THEN {"well-formed-record-refused"} ELSE {})
    \cup (IF MustAccept /\ e.rec.out = "ok" /\ e.rec.next # e.recEnd THEN {"record-boundary-missed"} ELSE {})
    \cup (IF MustAccept /\ e.msg.out = "ok" /\ e.msg.present # TRUE THEN {"record-dropped"} ELSE {})
    \cup (IF e.msg.out = "ok" /\ e.msg.fix # "equal" THEN {"reencoding-not-a-fixpoint"} ELSE {})
    \cup (IF MustAccept /\ Bytes /\ e.msg.out = "ok" /\ e.msg.rdataSame # "yes" THEN {"rdata-not-preserved"} ELSE {})
    \* the decoded type set of NSEC / NSEC3 / CSYNC is the one the bit map stands for
    \cup (IF MustAccept /\ ~IsTlv /\ HasBitmap(e.code) /\ e.msg.out = "ok"
             /\ BitmapTypes(e.tags[Len(e.tags)]) # {0 - 1}
             /\ {e.msg.types[i] : i \in 1..Len(e.msg.types)} # BitmapTypes(e.tags[Len(e.tags)])
          THEN {"type-set-differs"} ELSE {})

Allowed == e.ev = "g" /\ Problems = {}

Reject == ~Allowed /\ PrintT(<<"MISMATCH", ToJson([case |-> e.case, line |-> l, problems |-> Problems, must |-> MustAccept,
                                                    event |-> e])>>)
Next == l <= Len(Rec) /\ l' = l + 1 /\ (Allowed \/ Reject)
TraceSpec == Init /\ [][Next]_<<l>>
Consumed ==
    LET d == TLCGet("stats").diameter IN
    IF d - 1 = Len(Rec) THEN PrintT(<<"TRACE-CONSUMED", Len(Rec)>>)
    ELSE PrintT(<<"TRACE-STUCK", d, Len(Rec)>>) /\ FALSE
=============================================================================
