\* inductive step, 2 in-zone owners, serials 10 and 2^32-1 (thorough)
SPECIFICATION Spec
CONSTANTS
  Apex <- AP
  Owners <- Owners2
  InitZones <- MC_AllZones
  InitSers <- MC_Sers
  Msgs <- MC_MsgsAll
  MaxMsgs = 1
INVARIANTS TypeOK C12_AllOrNothing C12_Contents C12_PrereqOnCurrentZone C12_OneSOA C12_ApexNS C12_CnameAlone C12_SerialIffChanged C12_PseudoProseAgree
CHECK_DEADLOCK FALSE
