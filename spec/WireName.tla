------------------------------- MODULE WireName -------------------------------
(* C01 (names) -- the name reader as a state machine over a buffer, one action *)
(* per arm of the decoding loop (crates/proto/src/rr/domain/name.rs            *)
(* `read_inner`): OverlapGuard, Peek, ReadLabel, FollowPointer, ReadRoot.      *)
(* Requirements independent of those actions:                                  *)
(*   C01_Terminates   a variant <<runStart, Len(buf) - pos>> decreases         *)
(*                    lexicographically on every step                          *)
(*   C01_WorkLinear   steps <= 2 * Len(buf) + 2 for one name                   *)
(*   C01_NoOOB        every octet read lies inside the buffer                  *)
(*   C01_AgreesWithMeaning  the machine's verdict equals WireNameOps!DecodeName *)
(*   C01_LimitsHold   a decoded name respects the 63 / 255 limits              *)
EXTENDS WireNameOps, Integers, TLC

CONSTANTS Bufs,        \* set of buffers to explore
          Starts       \* set of start offsets

VARIABLES buf, start,
          phase,       \* "peek" | "label" | "pointer" | "root" | "done" | "err"
          pos, runStart, ptrMax,     \* ptrMax = -1: no pointer followed yet
          labels, steps, maxRead, why,
          prevVariant  \* variant of the previous state (history, for C01_Terminates)

vars == <<buf, start, phase, pos, runStart, ptrMax, labels, steps, maxRead, why, prevVariant>>

Variant == <<runStart, Len(buf) + 2 - pos + (IF phase = "peek" THEN 1 ELSE 0)>>
LexLess(a, b) == a[1] < b[1] \/ (a[1] = b[1] /\ a[2] < b[2])

Init == /\ buf \in Bufs /\ start \in Starts /\ start <= Len(buf)
        /\ phase = "peek" /\ pos = start /\ runStart = start /\ ptrMax = 0 - 1
        /\ labels = <<>> /\ steps = 0 /\ maxRead = 0 - 1 /\ why = ""
        /\ prevVariant = <<Len(buf) + 5, 0>>

Step(ph, p, rs, pm, ls, mr, w) ==
    /\ phase' = ph /\ pos' = p /\ runStart' = rs /\ ptrMax' = pm /\ labels' = ls
    /\ maxRead' = (IF mr > maxRead THEN mr ELSE maxRead) /\ why' = w
    /\ steps' = steps + 1 /\ prevVariant' = Variant
    /\ UNCHANGED <<buf, start>>
Fail(w) == Step("err", pos, runStart, ptrMax, labels, maxRead, w)
Live == phase \in {"peek", "label", "pointer", "root"}

\* top of the loop: after a pointer was followed, reading must stay before the pointing run
OverlapGuard == Live /\ ptrMax >= 0 /\ pos >= ptrMax /\ Fail("overlap")
Guarded == ptrMax < 0 \/ pos < ptrMax

Peek ==
    /\ phase = "peek" /\ Guarded
    /\ IF pos >= Len(buf) THEN Fail("short")
       ELSE LET b == At(buf, pos) IN
            IF b = 0 THEN Step("root", pos, runStart, ptrMax, labels, pos, "")
            ELSE IF b >= 192 THEN Step("pointer", pos, runStart, ptrMax, labels, pos, "")
            ELSE IF b >= 64 THEN Fail("reserved")
            ELSE Step("label", pos, runStart, ptrMax, labels, pos, "")

ReadLabel ==
    /\ phase = "label" /\ Guarded
    /\ LET n == At(buf, pos) IN
       IF pos + 1 + n > Len(buf) THEN Fail("short")
       ELSE LET ls == Append(labels, SubSeq(buf, pos + 2, pos + 1 + n)) IN
            IF NameWireLen(ls) > 255 THEN Fail("too-long")
            ELSE Step("peek", pos + 1 + n, runStart, ptrMax, ls, pos + n, "")

FollowPointer ==
    /\ phase = "pointer" /\ Guarded
    /\ IF pos + 1 >= Len(buf) THEN Fail("short")
       ELSE LET target == (At(buf, pos) - 192) * 256 + At(buf, pos + 1) IN
            IF target >= runStart THEN Fail("pointer-not-prior")
            ELSE Step("peek", target, target, runStart, labels, pos + 1, "")

ReadRoot ==
    /\ phase = "root" /\ Guarded
    /\ Step("done", pos + 1, runStart, ptrMax, labels, pos, "")

Next == OverlapGuard \/ Peek \/ ReadLabel \/ FollowPointer \/ ReadRoot
Spec == Init /\ [][Next]_vars

---------------------------------------------------------------------------
C01_Terminates   == steps > 0 /\ phase # "err" => LexLess(Variant, prevVariant)
C01_WorkLinear   == steps <= 2 * Len(buf) + 2
C01_NoOOB        == maxRead < Len(buf)
Meaning          == DecodeName(buf, start)
C01_AgreesWithMeaning ==
    /\ phase = "done" => (Meaning.ok /\ Meaning.labels = labels)
    /\ phase = "err"  => ~Meaning.ok
C01_LimitsHold   == phase = "done" => C01_Limits(labels)
\* the machine cannot stop anywhere else: every live state has a successor
C01_NoStuck      == Live => ENABLED Next
=============================================================================
