SPECIFICATION Spec
CONSTANTS
  Queries <- MC_Queries
  Cfg <- MC_Cfg
  Messages <- MC_Messages
  NegTtls <- MC_NegTtls
  ErrClasses <- MC_Err
  Steps <- MC_Steps
  MaxNow = 14
  Horizon = 16
INVARIANTS TypeOK C15_NeverLate C15_TtlExact C15_TtlWithinBounds C15_NegBound C15_Monotone
PROPERTIES C15_NoTransientCached
CONSTRAINT Bound
CHECK_DEADLOCK FALSE
