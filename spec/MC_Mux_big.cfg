\* thorough tier: 4 requests, 3 wire IDs (so IDs are reused after cancel / expiry), refusal above 2
\* in flight, every interleaving of up to MaxTag arrivals (first / duplicate / unknown / stale ID /
\* undecodable) with cancels, expiries and close
SPECIFICATION Spec
CONSTANTS
  Reqs = {r1, r2, r3, r4}
  Ids = {i1, i2, i3}
  Cap = 2
  MaxTag = 5
INVARIANTS TypeOK C16_DistinctIds C16_RoutedById C16_NoOther C16_CloseFailsAll
PROPERTIES C16_Reaches C16_UnknownDropped C16_CloseFailsAllStep C16_OnlyPendingReceive
SYMMETRY MC_Symm
CHECK_DEADLOCK FALSE
