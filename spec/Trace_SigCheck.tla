-------------------------- MODULE Trace_SigCheck --------------------------
(* Trace validation for C06 (obligation T: impl -> spec), monitor style,    *)
(* on concrete data.  Events recorded from the real validator               *)
(* (DnssecDnsHandle::send over a scripted upstream, virtual clocks):        *)
(*   reset     g = [group, sig, key]: the genuine RRset, RRSIG and DNSKEY   *)
(*             of the case (a new validator, empty cache), cfg = its        *)
(*             validation-cache TTL configuration                           *)
(*   validate  clk (validator clock, <<hi16, lo16>>), p = what was          *)
(*             presented, re-abstracted from the wire by the harness        *)
(*             walker: groups (RRsets of the answer with the verdict and    *)
(*             largest TTL the validator gave their records), sigs (RRSIG   *)
(*             records, ditto), keys (DNSKEY records the upstream serves)   *)
(*   advance   d: time passes (both clocks)                                 *)
(* The monitor states the requirements of SigCheck on this alphabet; the    *)
(* variants of the abstract model get their meaning here:                   *)
(*   "signed fields genuine"  ==  the RFC 4035 5.3.2 signed data of what    *)
(*        was presented (CanonicalForm!SignedData, the C05 oracle) and the  *)
(*        signature octets equal those of the genuine objects;              *)
(*   "key good"  ==  a presented DNSKEY is a zone key, not revoked,         *)
(*        protocol 3, owned by the Signer's Name, with the RRSIG's          *)
(*        algorithm and key tag (RFC 4034 Appendix B), and is the genuine   *)
(*        public key;                                                       *)
(*   "in window" ==  RFC 1982 comparison of 32-bit values (SigSerial, P-ops); *)
(*   "TTL bound" ==  TTL <= (Expiration - clock) mod 2^32.                  *)
(* Secure is judged, NotSecure never is (the property is an "only if").     *)
EXTENDS Naturals, Sequences, SequencesExt, FiniteSets, TLC, Json, IOUtils, CanonicalForm, SigSerial

Rec == ndJsonDeserialize(IOEnv.TRACE)

VARIABLES l,      \* next line
          g,      \* genuine world of the current case
          ccfg,   \* validation-cache TTL configuration of the validator of the current case (reported only:
                  \* no requirement depends on it)
          estab,  \* an earlier call of this case presented genuine signed data with a good key in the window
          bad
tvars == <<l, g, ccfg, estab, bad>>

NoWorld == [none |-> TRUE]
Init == l = 1 /\ g = NoWorld /\ ccfg = "none" /\ estab = FALSE /\ bad = 0

e == Rec[l]

NameEqCI(a, b) == LowerName(a) = LowerName(b)

\* RFC 4034 Appendix B
KeyTagSum(rd) ==
    LET f[i \in 0..Len(rd)] == IF i = 0 THEN 0 ELSE f[i - 1] + (IF i % 2 = 1 THEN rd[i] * 256 ELSE rd[i])
    IN  f[Len(rd)]
KeyTag(rd) == LET s == KeyTagSum(rd) IN (s + ((s \div 65536) % 65536)) % 65536

Signed(grp, s) == SignedData(grp.owner, grp.class, grp.recs, s.p)

Belongs(grp, s)  == NameEqCI(s.owner, grp.owner) /\ s.class = grp.class /\ s.p.tc = grp.type
Exact(grp, s)    == /\ ~LabelsTooMany(grp.owner, s.p.labels)
                    /\ Signed(grp, s) = Signed(g.group, g.sig)
GenuineSig(s)    == s.signature = g.sig.signature
MayWin(s, clk)   == /\ (PLE(s.incp, clk) \/ PUndef(s.incp, clk))
                    /\ (PLE(clk, s.expp) \/ PUndef(clk, s.expp))
InWin(s, clk)    == PLE(s.incp, clk) /\ PLE(clk, s.expp)
TtlOk(t, s, clk) == PNumLE(t, PDiff(clk, s.expp))

KeyGood(k, s) ==
    /\ Len(k.rdata) >= 4      \* (the class of the DNSKEY record is not named by the property: not judged)
    /\ (k.rdata[1] % 2) = 1                      \* Zone Key flag (bit 7 of the flags field)
    /\ ((k.rdata[2] \div 128) % 2) = 0           \* REVOKE flag (bit 8) clear
    /\ k.rdata[3] = 3
    /\ NameEqCI(k.owner, s.p.signer)
    /\ k.rdata[4] = s.p.alg
    /\ KeyTag(k.rdata) = s.p.tag
    /\ SubSeq(k.rdata, 4, Len(k.rdata)) = SubSeq(g.key.rdata, 4, Len(g.key.rdata))
SomeKeyGood(s) == \E j \in 1..Len(e.p.keys) : KeyGood(e.p.keys[j], s)

\* the conditions under which RRset grp may be Secure by RRSIG s, as a record (also printed)
Why(grp, s, t) ==
    [belongs |-> Belongs(grp, s), exact |-> Exact(grp, s), signature |-> GenuineSig(s),
     window |-> MayWin(s, e.clk), key |-> SomeKeyGood(s), estab |-> estab, ttl |-> TtlOk(t, s, e.clk)]
Holds(w) == w.belongs /\ w.exact /\ w.signature /\ w.window /\ (w.key \/ w.estab) /\ w.ttl

MaySecureGroup(grp) == \E i \in 1..Len(e.p.sigs) : Holds(Why(grp, e.p.sigs[i], grp.ttl))
MaySecureSig(s)     == \E i \in 1..Len(e.p.groups) : Holds(Why(e.p.groups[i], s, s.ttl))

SecureGroups == {i \in 1..Len(e.p.groups) : e.p.groups[i].verdict = "Secure"}
SecureSigs   == {i \in 1..Len(e.p.sigs) : e.p.sigs[i].verdict = "Secure"}

Allowed ==
    /\ \A i \in SecureGroups : MaySecureGroup(e.p.groups[i])
    /\ \A i \in SecureSigs : MaySecureSig(e.p.sigs[i])

Establishes ==
    \E i \in 1..Len(e.p.groups), j \in 1..Len(e.p.sigs) :
        LET grp == e.p.groups[i]
            s == e.p.sigs[j] IN
        Belongs(grp, s) /\ Exact(grp, s) /\ GenuineSig(s) /\ InWin(s, e.clk) /\ SomeKeyGood(s)

\* diagnostics for a rejected event: the conditions of every Secure object against the first RRSIG
Diagnosis ==
    [groups |-> [i \in 1..Len(e.p.groups) |->
                    IF i \in SecureGroups /\ Len(e.p.sigs) > 0
                    THEN Why(e.p.groups[i], e.p.sigs[1], e.p.groups[i].ttl) ELSE [skip |-> TRUE]],
     nsigs |-> Len(e.p.sigs), ngroups |-> Len(e.p.groups)]

Reset ==
    /\ e.ev = "reset"
    /\ g' = e.g /\ ccfg' = e.cfg /\ estab' = FALSE /\ UNCHANGED bad
Advance ==
    /\ e.ev = "advance" /\ UNCHANGED <<g, ccfg, estab, bad>>
Matched ==
    /\ e.ev = "validate" /\ Allowed
    /\ estab' = (estab \/ Establishes) /\ UNCHANGED <<g, ccfg, bad>>
Reject ==
    /\ e.ev = "validate" /\ ~Allowed
    /\ PrintT(<<"MISMATCH", ToJson([case |-> e.case, cfg |-> ccfg, line |-> l, note |-> e.note, clk |-> e.clk,
                                     upstream_queries |-> e.upstream_queries, why |-> Diagnosis])>>)
    /\ estab' = (estab \/ Establishes) /\ bad' = bad + 1 /\ UNCHANGED <<g, ccfg>>

Next == l <= Len(Rec) /\ l' = l + 1 /\ (Reset \/ Advance \/ Matched \/ Reject)

TraceSpec == Init /\ [][Next]_tvars

Consumed ==
    LET d == TLCGet("stats").diameter IN
    IF d - 1 = Len(Rec) THEN PrintT(<<"TRACE-CONSUMED", Len(Rec)>>)
    ELSE PrintT(<<"TRACE-STUCK", d, Len(Rec)>>) /\ FALSE
=============================================================================
