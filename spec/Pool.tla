------------------------------- MODULE Pool -------------------------------
(***************************************************************************)
(* C18 -- a lookup succeeds if any configured server can answer, within    *)
(* the deadline; concurrent identical queries share one upstream exchange. *)
(*                                                                         *)
(* hickory-resolver: NameServerPool::send / PoolState::try_send            *)
(* (crates/resolver/src/name_server_pool.rs), NameServer::send.            *)
(*                                                                         *)
(* Two layers.                                                             *)
(*  - The MACHINE: one lookup mechanism on a virtual timeline -- callers   *)
(*    arrive (Call), the first one creates the exchange and later ones     *)
(*    join it, servers are asked in rounds of at most nconc (RoundLaunch), *)
(*    the earliest outstanding reply arrives (Reply), busy servers are     *)
(*    retried after a growing pause (Backoff), the search is abandoned     *)
(*    (GiveUp, DeadlineInRound, DeadlineInFlight) and all callers of the   *)
(*    exchange get its result while the in-flight entry is removed         *)
(*    (Deliver).  Time is a variable: every action says how far it moves.  *)
(*  - The REQUIREMENTS C18_xxx: the operators of PoolOps evaluated on the  *)
(*    observable history only (requests seen by the servers, what each     *)
(*    caller got and when).  The trace monitor (Trace_Pool) applies the    *)
(*    same operators to runs recorded from the real pool.                  *)
(*                                                                         *)
(* Two switches select the rule the code follows today where that rule is  *)
(* known to break a requirement (kept to document the counterexamples,     *)
(* DESIGN.md appendix A.5; conformance always runs against the required    *)
(* rule):                                                                  *)
(*   DeadlineRule = "required": nothing outlives start + T;                *)
(*                  "asis":     the deadline is looked at only between     *)
(*                              rounds, a request runs its full timeout;   *)
(*   UdpRule      = "required": after a truncated reply UDP is avoided     *)
(*                              where TCP exists; a UDP-only server is     *)
(*                              still asked;                               *)
(*                  "asis":     after a truncated reply every UDP-only     *)
(*                              server is dropped from the search.         *)
(***************************************************************************)
EXTENDS PoolOps, TLC

CONSTANTS Configs,        \* set of configurations (see PoolOps for the record shape)
          NCallers,       \* callers 1..NCallers issue the identical query, in this order
          Gaps,           \* idle times that may pass between a completion and the next call
          Backoff0,       \* first pause before busy servers are asked again
          BackoffCap,     \* no further pause once the next one would reach this
          DeadlineRule, UdpRule

VARIABLES
    cfg,      \* the configuration of this behaviour
    now,      \* virtual time (ms)
    A,        \* history: every request made to a server (see PoolOps: attempt)
    callers,  \* [c |-> [st: "new" | "waiting" | "done", t, lk, ls, d, viol]]
    shared,   \* the in-flight map for the (single) query: [active, origin, start]
    m,        \* mechanism state of the active exchange
    rr,       \* round-robin cursor of the pool (survives lookups)
    open      \* servers to which a TCP connection is pooled

vars == <<cfg, now, A, callers, shared, m, rr, open>>

NoDone == [t |-> 0, class |-> "", from |-> 0, err |-> ""]
Idle   == [phase |-> "idle", queue |-> <<>>, flight |-> {}, busy |-> <<>>, backoff |-> 0,
           noUdp |-> FALSE, err |-> "error", res |-> NoDone]

N == Len(cfg.servers)
Deadline == shared.start + cfg.T

Init ==
    /\ cfg \in Configs
    /\ now = 0 /\ A = <<>> /\ rr = 0 /\ open = {}
    /\ callers = [c \in 1..NCallers |-> [st |-> "new", q |-> 1, rd |-> 1, cd |-> 0, t |-> 0, lk |-> 0, ls |-> 0, d |-> NoDone, viol |-> {}]]
    /\ shared = [active |-> FALSE, origin |-> 0, start |-> 0]
    /\ m = Idle

---------------------------------------------------------------------------
\* server order of a new exchange

Rotate(k) == [i \in 1..N |-> ((i - 1 + k) % N) + 1]
Perms == {p \in [1..N -> 1..N] : \A i, j \in 1..N : p[i] = p[j] => i = j}
Orders ==
    IF cfg.strategy = "user" THEN {[i \in 1..N |-> i]}
    ELSE IF cfg.strategy = "rr" THEN {Rotate(rr)}
    ELSE Perms            \* ordering by statistics: any order (the property does not depend on it)

NextCaller(c) == callers[c].st = "new" /\ \A b \in 1..(c - 1) : callers[b].st # "new"

\* the first caller, or a caller that finds no exchange in flight, creates one
CallCreate(c, gap, order) ==
    /\ NextCaller(c) /\ ~shared.active
    /\ gap \in (IF c = 1 THEN {0} ELSE Gaps) /\ order \in Orders
    /\ now' = now + gap
    /\ shared' = [active |-> TRUE, origin |-> c, start |-> now']
    /\ callers' = [callers EXCEPT ![c] = [@ EXCEPT !.st = "waiting", !.t = now', !.lk = c, !.ls = now']]
    /\ m' = [Idle EXCEPT !.phase = "round", !.queue = order, !.backoff = Backoff0]
    /\ rr' = IF cfg.strategy = "rr" /\ Hi(cfg.nconc, 1) < N THEN (rr + Hi(cfg.nconc, 1)) % N ELSE rr
    /\ UNCHANGED <<cfg, A, open>>

\* a caller that finds the identical query in flight joins it (no request of its own)
CallJoin(c) ==
    /\ NextCaller(c) /\ shared.active /\ m.phase # "done"
    /\ SameQuery(callers[c], callers[shared.origin])      \* only identical queries share (here: all callers' are)
    /\ callers' = [callers EXCEPT ![c] = [@ EXCEPT !.st = "waiting", !.t = now, !.lk = shared.origin,
                                                   !.ls = shared.start]]
    /\ UNCHANGED <<cfg, now, A, shared, m, rr, open>>

---------------------------------------------------------------------------
\* one exchange

Srv(s) == cfg.servers[s]
\* may server s still be asked, and over which transport
Usable(s) ==
    IF ~m.noUdp THEN TRUE
    ELSE IF UdpRule = "asis" THEN HasProto(Srv(s), "tcp")
    ELSE TRUE
Transport(s) ==
    IF HasProto(Srv(s), "udp") /\ (~m.noUdp \/ ~HasProto(Srv(s), "tcp")) THEN "udp" ELSE "tcp"

RECURSIVE TakeBatch(_, _, _)
\* <<batch, rest>>: the first k usable servers of the queue; unusable ones met on the way are dropped
TakeBatch(queue, k, acc) ==
    IF queue = <<>> \/ Len(acc) = k THEN <<acc, queue>>
    ELSE IF Usable(Head(queue)) THEN TakeBatch(Tail(queue), k, Append(acc, Head(queue)))
         ELSE TakeBatch(Tail(queue), k, acc)

Batch == TakeBatch(m.queue, Hi(cfg.nconc, 1), <<>>)

\* what one server's turn adds to the history: the request -- over TCP without a pooled connection
\* first a connection attempt, which the request follows when (and if) it is established.  The
\* exchange waits for the last record of the turn.
WillConnect(s, hist) ==
    Transport(s) = "tcp" /\ s \notin open
    /\ ConnKind(cfg, BehAt(Srv(s).tc, CountAt(hist, s, "conn") + 1)) = "connected"
Turn(s, hist) ==
    LET p == Transport(s)
        Req(st) == [s |-> s, p |-> p, n |-> CountAt(hist, s, p) + 1, o |-> shared.origin, q |-> 1,
                    st |-> st, en |-> 0, res |-> ""]
    IN IF p = "tcp" /\ s \notin open
       THEN LET k == CountAt(hist, s, "conn") + 1
                b == BehAt(Srv(s).tc, k)
                c == [s |-> s, p |-> "conn", n |-> k, o |-> shared.origin, q |-> 1, st |-> now, en |-> 0, res |-> ""]
            IN IF ConnKind(cfg, b) = "connected"
               THEN <<[c EXCEPT !.en = now + ConnDur(cfg, b), !.res = "connected"], Req(now + ConnDur(cfg, b))>>
               ELSE <<c>>
       ELSE <<Req(now)>>

RECURSIVE Launch(_, _, _)
\* <<history, waited-for records>> after the turns of the servers srvs
Launch(srvs, hist, fl) ==
    IF srvs = <<>> THEN <<hist, fl>>
    ELSE LET t == Turn(Head(srvs), hist) IN Launch(Tail(srvs), hist \o t, fl \cup {Len(hist) + Len(t)})

Finish(class, from, err) ==
    m' = [m EXCEPT !.phase = "done", !.flight = {}, !.res = [t |-> now', class |-> class, from |-> from, err |-> err]]

\* the budget is used up when a new round is about to start
DeadlineInRound ==
    /\ m.phase = "round" /\ now >= Deadline
    /\ now' = now /\ Finish("error", 0, "timeout")
    /\ UNCHANGED <<cfg, A, callers, shared, rr, open>>

\* ask the next servers, at most nconc at a time
RoundLaunch ==
    /\ m.phase = "round" /\ now < Deadline /\ Len(Batch[1]) > 0
    /\ LET b == Batch[1]
           l == Launch(b, A, {})
       IN /\ A' = l[1]
          /\ m' = [m EXCEPT !.phase = "wait", !.queue = Batch[2], !.flight = l[2]]
          /\ open' = open \cup {b[i] : i \in {j \in 1..Len(b) : WillConnect(b[j], A)}}
    /\ UNCHANGED <<cfg, now, callers, shared, rr>>

\* nobody left to ask, but some servers said busy: pause, then ask those again
Backoff ==
    /\ m.phase = "round" /\ now < Deadline /\ Len(Batch[1]) = 0
    /\ m.busy # <<>> /\ m.backoff < BackoffCap
    /\ now' = Lo(now + m.backoff, Deadline)
    /\ m' = [m EXCEPT !.queue = m.busy, !.busy = <<>>, !.backoff = 2 * m.backoff]
    /\ UNCHANGED <<cfg, A, callers, shared, rr, open>>

\* nobody left to ask at all
GiveUp ==
    /\ m.phase = "round" /\ now < Deadline /\ Len(Batch[1]) = 0
    /\ ~(m.busy # <<>> /\ m.backoff < BackoffCap)
    /\ now' = now /\ Finish(m.err, 0, "exhausted")
    /\ UNCHANGED <<cfg, A, callers, shared, rr, open>>

EndOf(i) == A[i].st + DurOf(cfg, A[i].p, BehAt(Script(Srv(A[i].s), A[i].p), A[i].n))
Earliest(i) == i \in m.flight /\ \A j \in m.flight : EndOf(i) <= EndOf(j)

\* the reply (or the per-attempt timeout) of the earliest outstanding request arrives
Reply(i) ==
    /\ m.phase = "wait" /\ Earliest(i)
    /\ (DeadlineRule = "required" => EndOf(i) <= Deadline)
    /\ now' = EndOf(i)
    /\ LET a    == A[i]
           kind == KindOf(cfg, a.p, BehAt(Script(Srv(a.s), a.p), a.n))
           left == m.flight \ {i}
           next == IF left = {} THEN "round" ELSE "wait"
       IN /\ A' = [A EXCEPT ![i] = [@ EXCEPT !.en = now', !.res = kind]]
          /\ CASE kind = "answer" -> Finish("answer", a.s, "")
               [] kind = "nx" /\ Srv(a.s).trusted -> Finish("nx", 0, "")
               [] kind = "nx" -> m' = [m EXCEPT !.flight = left, !.phase = next, !.err = "nx"]
               \* truncated: from now on prefer TCP; the server is asked again, ahead of the others, if it
               \* can be asked over TCP (asis: it is re-queued regardless and dropped when its turn comes)
               [] kind \in {"trunc", "mismatch"} -> m' = [m EXCEPT !.flight = left, !.phase = next, !.noUdp = TRUE,
                                                   !.queue = IF a.p = "udp" /\ (UdpRule = "asis" \/ HasProto(Srv(a.s), "tcp"))
                                                             THEN <<a.s>> \o m.queue ELSE m.queue]
               [] kind = "busy" -> m' = [m EXCEPT !.flight = left, !.phase = next, !.busy = Append(m.busy, a.s)]
               [] OTHER -> m' = [m EXCEPT !.flight = left, !.phase = next]
          \* a connection on which a request failed is not used again
          /\ open' = IF a.p = "tcp" /\ kind \in {"io", "timeout", "busy"} THEN open \ {a.s} ELSE open
    /\ UNCHANGED <<cfg, callers, shared, rr>>

\* required rule: the budget ends while requests are still outstanding -- they are abandoned
DeadlineInFlight ==
    /\ DeadlineRule = "required"
    /\ m.phase = "wait" /\ \E i \in m.flight : Earliest(i) /\ EndOf(i) > Deadline
    /\ now' = Deadline /\ Finish("error", 0, "timeout")
    /\ UNCHANGED <<cfg, A, callers, shared, rr, open>>

\* every caller of the exchange receives its result; the in-flight entry is removed
Deliver ==
    /\ m.phase = "done"
    /\ callers' = [c \in 1..NCallers |->
                     IF callers[c].st = "waiting"
                     THEN [callers[c] EXCEPT !.st = "done", !.d = m.res,
                             !.viol = Violations(cfg, A, [origin |-> callers[c].lk, start |-> callers[c].ls],
                                                 callers[c].t, m.res)]
                     ELSE callers[c]]
    /\ shared' = [shared EXCEPT !.active = FALSE]
    /\ m' = Idle
    \* servers that close idle connections have done so by the time the next call comes
    /\ open' = {s \in open : Srv(s).idle = 0}
    /\ UNCHANGED <<cfg, now, A, rr>>

Create == \E c \in 1..NCallers, g \in Gaps \cup {0} : \E o \in Orders : CallCreate(c, g, o)
Join   == \E c \in 1..NCallers : CallJoin(c)
ReplyArrives == \E i \in DOMAIN A : Reply(i)

Next ==
    \/ Create
    \/ Join
    \/ DeadlineInRound
    \/ RoundLaunch
    \/ Backoff
    \/ GiveUp
    \/ ReplyArrives
    \/ DeadlineInFlight
    \/ Deliver

Spec == Init /\ [][Next]_vars
FairSpec == Spec /\ WF_vars(Next)

---------------------------------------------------------------------------
\* requirements (observable history only)

Got(c) == callers[c].st = "done"
AllViol == UNION {callers[c].viol : c \in {x \in 1..NCallers : Got(x)}}

\* "completes with an answer or an error no later than the configured timeout"
C18_Deadline == "deadline-exceeded" \notin AllViol
\* "returns the answer of a healthy server whenever one exists and the time budget allows"
C18_FindsHealthy == AllViol \cap {"healthy-server-not-used", "busy-server-not-retried"} = {}
\* "a truncated UDP reply is retried over TCP"
C18_TcpRetry == "truncated-not-retried-over-tcp" \notin AllViol
\* "an NXDOMAIN from a server not trusted for negative answers does not end the search"
C18_UntrustedNxContinues == "untrusted-nx-ended-search" \notin AllViol
\* "concurrent identical queries share one upstream exchange and all receive its result"
C18_SharedOnce ==
    /\ \A i \in DOMAIN A : callers[A[i].o].lk = A[i].o        \* every request was made for a creator
    /\ \A b, c \in 1..NCallers : Got(b) /\ Got(c) /\ callers[b].lk = callers[c].lk => callers[b].d = callers[c].d
\* after completion the entry is gone: what a later caller gets was received in its own exchange
C18_MapCleaned ==
    /\ AllViol \cap {"answer-without-exchange", "nxdomain-without-exchange", "truncated-without-exchange",
                     "unexpected-result"} = {}
    /\ (\A c \in 1..NCallers : callers[c].st # "waiting") => ~shared.active

\* bounded liveness: every caller is served (under FairSpec)
C18_EveryCallerServed == <>(\A c \in 1..NCallers : Got(c))

TypeOK ==
    /\ now \in Nat /\ rr \in Nat
    /\ m.phase \in {"idle", "round", "wait", "done"}
    /\ m.flight \subseteq DOMAIN A
    /\ \A i \in DOMAIN A : A[i].res = "" \/ A[i].en >= A[i].st
=============================================================================
