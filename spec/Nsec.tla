-------------------------------- MODULE Nsec --------------------------------
(* C08 -- NSEC denial of existence is sound and complete.                     *)
(*                                                                            *)
(* The mechanism, one action per step:                                        *)
(*   AddOwner   the zone administrator adds an owner name with a type set     *)
(*   Sign       the zone is signed: the NSEC chain is generated               *)
(*   Ask        a resolver asks <q, t>                                        *)
(*   Respond    the authoritative server answers with the response kind of    *)
(*              RFC 1034 4.3.2 / RFC 4592 and attaches the NSEC records       *)
(*              RFC 4035 3.1.3 obliges it to attach                           *)
(*   Forge      instead, an attacker on the path makes up any negative or     *)
(*              wildcard claim about <q, t> and supports it with any small    *)
(*              set of *genuine* signed NSEC records: records of this zone's  *)
(*              chain, of the child zones below its delegations, and of the   *)
(*              parent side of its own apex                                   *)
(*   Validate   the validator reads the records per RFC 4035 5.4 and          *)
(*              RFC 6840 4 (operator Entails of NsecOps)                      *)
(* Requirements (observable state only: the zone, the question, the response  *)
(* and the verdict):                                                          *)
(*   C08_Complete   the server's own response is accepted                     *)
(*   C08_Sound      whatever is accepted is true of the name space            *)
EXTENDS NsecOps, FiniteSets, TLC

CONSTANTS
    Apex,          \* name of the zone apex
    Universe,      \* names that may be added as owners (below Apex)
    PlainKinds,    \* type sets an ordinary owner may get, e.g. {{"A"}, {"CNAME"}, {"NS"}, {"NS","DS"}}
    WildKinds,     \* type sets a wildcard owner may get
    MaxOwners,     \* owners besides the apex
    QNames,        \* names asked for
    QTypes,        \* types asked for
    MaxProof,      \* records an attacker puts into one response
    ParentSide     \* genuine NSEC records of the parent zone around the delegation of Apex

VARIABLES
    zone,          \* function: owner name -> type set
    phase,         \* "edit" -> "signed" -> "asked" -> "answered" -> "validated" (or "positive")
    chain,         \* the signed zone's NSEC records
    q, t,          \* the question
    resp,          \* the response: [kind, ce, proof]  (kind/ce: see NsecOps.ClaimTrue)
    genuine,       \* TRUE iff resp is the authoritative server's own response
    verdict        \* "none" | "Secure" | "Bogus"

vars == <<zone, phase, chain, q, t, resp, genuine, verdict>>

NoName == <<>>
NoResp == [kind |-> "none", ce |-> NoName, proof |-> {}]

ApexTypes == {"SOA", "NS"}
KindsOf(n) == IF IsWildcard(n) THEN WildKinds ELSE PlainKinds

(* The child zone below a delegation point d, as far as its NSEC chain and    *)
(* its truth are concerned: an apex that also owns an address (data the       *)
(* parent knows nothing about) and one host.                                  *)
ChildHost(d) == <<<<97>>>> \o d                                   \* "a.<d>"
ChildZone(d) == (d :> {"SOA", "NS", "A"}) @@ (ChildHost(d) :> {"A"})

Cuts == { d \in AuthOwners(zone, Apex) : IsCut(zone, Apex, d) }

(* A wildcard owner's NSEC (and its RRSIG) can be shown under any name the   *)
(* wildcard matches: the signature still verifies (RFC 4035 5.3.2).  The one  *)
(* that matters is an expansion that sorts before the wildcard itself, e.g.   *)
(* "!.<parent>": read naively it would span the wildcard and all it answers.  *)
BANG == <<33>>
Expansions ==
    { [owner |-> <<BANG>> \o Parent(r.owner), next |-> r.next, types |-> r.types, exp |-> TRUE] :
        r \in { x \in chain : IsWildcard(x.owner) } }

\* every genuine signed NSEC record an attacker can get hold of
Material == chain \cup ParentSide \cup UNION { Chain(ChildZone(d), d) : d \in Cuts } \cup Expansions

(* Truth in the name space: below a cut (and at it, except for DS) the child  *)
(* zone decides, elsewhere this zone does.                                    *)
WorldClaimTrue(qn, qt, kind, ce) ==
    LET ds == { d \in Cuts : IsSubdomain(qn, d) /\ ~(d = qn /\ qt = "DS") } IN
    IF ds = {} THEN ClaimTrue(zone, Apex, qn, qt, kind, ce)
    ELSE LET d == CHOOSE x \in ds : TRUE IN ClaimTrue(ChildZone(d), d, qn, qt, kind, ce)

\* the closest enclosers a wildcard answer for qn may name: proper ancestors inside the zone
WildCes(qn) == { c \in Ancestors(qn) : IsSubdomain(c, Apex) }

-----------------------------------------------------------------------------
Init ==
    /\ zone = (Apex :> ApexTypes)
    /\ phase = "edit" /\ chain = {} /\ q = NoName /\ t = "none"
    /\ resp = NoResp /\ genuine = FALSE /\ verdict = "none"

AddOwner(n, ts) ==
    /\ phase = "edit"
    /\ n \notin DOMAIN zone
    /\ Cardinality(DOMAIN zone) <= MaxOwners
    /\ zone' = zone @@ (n :> ts)
    /\ UNCHANGED <<phase, chain, q, t, resp, genuine, verdict>>

Sign ==
    /\ phase = "edit"
    /\ chain' = Chain(zone, Apex)
    /\ phase' = "signed"
    /\ UNCHANGED <<zone, q, t, resp, genuine, verdict>>

Ask(qn, qt) ==
    /\ phase = "signed"
    /\ q' = qn /\ t' = qt
    /\ phase' = "asked"
    /\ UNCHANGED <<zone, chain, resp, genuine, verdict>>

\* a response that NSEC records have to support
Respond ==
    /\ phase = "asked"
    /\ ServerKind(zone, Apex, q, t) # "none"
    /\ resp' = [kind |-> ServerKind(zone, Apex, q, t), ce |-> CE(zone, Apex, q),
                proof |-> ServerProof(zone, Apex, q, t)]
    /\ genuine' = TRUE
    /\ phase' = "answered"
    /\ UNCHANGED <<zone, chain, q, t, verdict>>

\* positive answers and referrals: nothing for C08 to judge
RespondOther ==
    /\ phase = "asked"
    /\ ServerKind(zone, Apex, q, t) = "none"
    /\ phase' = "positive"
    /\ UNCHANGED <<zone, chain, q, t, resp, genuine, verdict>>

Forge(kind, ce, P) ==
    /\ phase = "asked"
    /\ resp' = [kind |-> kind, ce |-> ce, proof |-> P]
    /\ genuine' = FALSE
    /\ phase' = "answered"
    /\ UNCHANGED <<zone, chain, q, t, verdict>>

Validate ==
    /\ phase = "answered"
    /\ verdict' = IF Entails(resp.proof, q, t, resp.kind, resp.ce) THEN "Secure" ELSE "Bogus"
    /\ phase' = "validated"
    /\ UNCHANGED <<zone, chain, q, t, resp, genuine>>

SmallSubsets(S, k) == { P \in SUBSET S : Cardinality(P) <= k }

\* the phase guards come first so that TLC does not enumerate the quantifier domains in vain
AddSome == phase = "edit" /\ \E n \in Universe : \E ts \in KindsOf(n) : AddOwner(n, ts)
AskSome == phase = "signed" /\ \E qn \in QNames, qt \in QTypes : Ask(qn, qt)
ForgeSome ==
    /\ phase = "asked"
    /\ LET M == SmallSubsets(Material, MaxProof) IN
       \/ \E kind \in {"nxdomain", "nodata"} : \E P \in M : Forge(kind, NoName, P)
       \/ \E ce \in WildCes(q) : \E P \in M : Forge("wild", ce, P)

Next ==
    \/ AddSome
    \/ Sign
    \/ AskSome
    \/ Respond
    \/ RespondOther
    \/ ForgeSome
    \/ Validate

Spec == Init /\ [][Next]_vars

-----------------------------------------------------------------------------
TypeOK ==
    /\ phase \in {"edit", "signed", "asked", "answered", "validated", "positive"}
    /\ verdict \in {"none", "Secure", "Bogus"}
    /\ resp.kind \in {"none", "nxdomain", "nodata", "wild"}
    /\ genuine \in BOOLEAN

(* C08, second sentence: "for every signed zone and every query, the proof    *)
(* the authoritative server attaches is accepted by the validator".           *)
C08_Complete == (phase = "validated" /\ genuine) => verdict = "Secure"

(* C08, first sentence: accepted only if the records entail the claim.  Here  *)
(* the declarative reading (Entails) is itself checked against the content    *)
(* of the name space: whatever it accepts, built from genuine records of this *)
(* zone, its children and its parent, is true.  (OpenDsCase: see NsecOps.)    *)
C08_Sound ==
    (phase = "validated" /\ verdict = "Secure" /\ ~OpenDsCase(resp.proof, q, t, resp.kind))
        => WorldClaimTrue(q, t, resp.kind, resp.ce)

\* the server's records really are records of the chain, and at most two of them
C08_ProofFromChain == (phase = "answered" /\ genuine) => (resp.proof \subseteq chain /\ Cardinality(resp.proof) \in 1..2)

\* more records never hurt (so judging subsets up to a small size loses nothing)
C08_Monotone ==
    (phase = "validated" /\ verdict = "Secure") =>
        \A r \in Material : Entails(resp.proof \cup {r}, q, t, resp.kind, resp.ce)

\* ... and two records are always enough
C08_TwoSuffice ==
    (phase = "validated" /\ verdict = "Secure") =>
        \E P2 \in SmallSubsets(resp.proof, 2) : Entails(P2, q, t, resp.kind, resp.ce)

\* anti-vacuity witnesses (checked to be reachable by negated-invariant runs in the check)
W_SecureForged  == ~(phase = "validated" /\ ~genuine /\ verdict = "Secure")
W_BogusTrue     == ~(phase = "validated" /\ ~genuine /\ verdict = "Bogus" /\ WorldClaimTrue(q, t, resp.kind, resp.ce))
=============================================================================
