------------------------------ MODULE Nsec3Ops ------------------------------
(* Pure operators for C09 (NSEC3 denial of existence).  Constant-free; shared *)
(* by Nsec3 (machine + requirements), MC_Nsec3, Gen_Nsec3 and Trace_Nsec3.    *)
(* Zones, lookup and the truth of a claim are those of NsecOps part 1.        *)
(*                                                                            *)
(* Hashing is not modelled: a *hash table* HT maps a parameter-set id to a    *)
(* function from names to hash values; hash values are pairs <<hi, lo>> of    *)
(* naturals compared lexicographically (the driver sends the first 60 bits of *)
(* the real SHA-1 based hash as two 30-bit numbers; model configurations use  *)
(* small numbers).  Everything below only compares hashes.                    *)
(*                                                                            *)
(* An NSEC3 record is                                                         *)
(*   [oh |-> owner hash, nh |-> next hashed owner, types |-> set of           *)
(*    mnemonics, optout |-> BOOLEAN, params |-> [id, iter], zone |-> name]    *)
(* zone is the owner name without its first (hash) label.  Records built from *)
(* a zone by Chain3 also carry on / nn, the original owner names (used by the *)
(* concretiser only).                                                         *)
EXTENDS NsecOps

HashLess(a, b) == a[1] < b[1] \/ (a[1] = b[1] /\ a[2] < b[2])

-----------------------------------------------------------------------------
(* Part 1: the NSEC3 chain and the proofs a server has to attach.             *)

\* insecure delegations (NS, no DS) get no NSEC3 record in an Opt-Out zone (RFC 5155 6, 7.1)
OptedOut(z, apex, oo) == IF oo THEN { d \in AuthOwners(z, apex) : IsCut(z, apex, d) /\ "DS" \notin z[d] } ELSE {}

\* original owner names of the chain: every owner and every empty non-terminal above one (RFC 5155 7.1)
Names3(z, apex, oo) ==
    UNION { { a \in AncestorsOrSelf(o) : IsSubdomain(a, apex) } : o \in AuthOwners(z, apex) \ OptedOut(z, apex, oo) }
            \cup {apex}

Types3(z, apex, n) == IF n \in DOMAIN z THEN ChainTypes(z, apex, n) ELSE {}

\* cyclic successor of n in hash order among S (n itself if S is a singleton)
HSucc(S, H, n) ==
    LET later == { m \in S : HashLess(H[n], H[m]) } IN
    IF later # {} THEN CHOOSE m \in later : \A k \in later : ~HashLess(H[k], H[m])
    ELSE CHOOSE m \in S : \A k \in S : ~HashLess(H[k], H[m])

Chain3(z, apex, oo, H, par) ==
    LET S == Names3(z, apex, oo) IN
    { [oh |-> H[n], nh |-> H[HSucc(S, H, n)], types |-> Types3(z, apex, n), optout |-> oo,
       params |-> par, zone |-> apex, on |-> n, nn |-> HSucc(S, H, n)] : n \in S }

M3(r, H, n) == r.oh = H[n]
\* RFC 5155 1.3 "cover": the hash lies strictly between owner and next; the last record of the
\* chain wraps; a chain of one record covers every other hash
C3(r, H, n) ==
    LET h == H[n] IN
    IF HashLess(r.oh, r.nh) THEN HashLess(r.oh, h) /\ HashLess(h, r.nh)
    ELSE h # r.oh /\ (HashLess(r.oh, h) \/ HashLess(h, r.nh))

\* cover as the validator must read it; L may relax it (explanations only, see Lax3Rules)
C3X(r, H, n, L) ==
    \/ C3(r, H, n)
    \/ "last-nsec3-covers-everything" \in L /\ ~HashLess(r.oh, r.nh) /\ H[n] # r.oh

MatchSet(ch, H, n) == { r \in ch : M3(r, H, n) }
CoverSet(ch, H, n) == { r \in ch : C3(r, H, n) }

\* closest provable encloser of q: its longest ancestor-or-self with a record in the chain
Cpe(z, apex, oo, q) ==
    LET S  == Names3(z, apex, oo)
        ks == { k \in Len(apex)..Len(q) : Suffix(q, k) \in S }
        k  == CHOOSE x \in ks : \A y \in ks : y <= x
    IN  Suffix(q, k)
NextCloser(q, c) == Suffix(q, Len(c) + 1)

(* RFC 5155 7.2.1 - 7.2.6: what the server includes.                          *)
ServerProof3(z, apex, q, t, oo, H, par) ==
    LET ch == Chain3(z, apex, oo, H, par)
        S  == Names3(z, apex, oo)
        lk == Lookup(z, apex, q, t)
        c  == Cpe(z, apex, oo, q)
        nc == NextCloser(q, c)
        w  == Wildcard(c)
        cep == MatchSet(ch, H, c) \cup CoverSet(ch, H, nc) IN
    CASE lk = "nodata" /\ q \in S           -> MatchSet(ch, H, q)                \* 7.2.3, 7.2.4 (also ENT)
      [] lk = "nodata" /\ q \notin S        -> cep                              \* 7.2.3 / 7.2.4 under Opt-Out
      [] lk = "nxdomain"                    -> cep \cup CoverSet(ch, H, w)       \* 7.2.2
      [] lk = "wildanswer"                  -> CoverSet(ch, H, nc)               \* 7.2.6
      [] lk = "wildnodata" /\ w \in S       -> cep \cup MatchSet(ch, H, w)       \* 7.2.5
      [] OTHER -> {}

-----------------------------------------------------------------------------
(* Part 2: the validator's reading of NSEC3 records (RFC 5155 8, RFC 6840 4). *)

\* RFC 5155 8.2: identical hash algorithm, iterations and salt
SameParams(P) == \A r1, r2 \in P : r1.params = r2.params

Lax3Rules == { "last-nsec3-covers-everything",         \* the last record of the chain spans only the hashes after
                                                       \* its owner and before its next hashed owner name
               "encloser-may-be-delegation-or-dname",  \* RFC 5155 8.3 last paragraph
               "rfc6840-type-at-delegation",           \* RFC 6840 4.1: a delegation's NSEC3 denies DS only
               "optout-cover-for-any-claim",           \* RFC 5155 9.2 / C09: Opt-Out only for DS
               "zone-unchecked-without-soa",           \* records must belong to the response's zone
               "ds-optout-encloser-unproven",          \* 8.6: closest *provable* encloser proof needed
               "wildcard-answer-judged-as-nodata",     \* 8.8: a response with an expanded answer needs the cover of
                                                       \* the next closer name; a record matching QNAME contradicts it
               "nodata-at-apex-unproven" }             \* 8.5: an NSEC3 RR matching QNAME must be present, also
                                                       \* when QNAME is the zone apex

\* RFC 5155 8.3: the closest encloser c of q (a proper ancestor): some record matches c, some record
\* covers the next closer name, and c is not a delegation point or DNAME owner (that would mean the
\* records come from the parent side of a cut: nothing below c can be denied with them)
EncloserOk(r, L) ==
    "encloser-may-be-delegation-or-dname" \in L \/ ~(AncestorDelegation(r) \/ "DNAME" \in r.types)
CeProofs(P, H, q, zone, L) ==
    \* pairs <<c, covering record of the next closer>>
    { <<c, nr>> \in { a \in Ancestors(q) : IsSubdomain(a, zone) } \X P :
        /\ \E cr \in P : M3(cr, H, c) /\ EncloserOk(cr, L)
        /\ C3X(nr, H, NextCloser(q, c), L) }
NoOptOut(r, L) == "optout-cover-for-any-claim" \in L \/ ~r.optout

NxDomain3(P, H, q, zone, L) ==
    \E cp \in CeProofs(P, H, q, zone, L) :
        /\ NoOptOut(cp[2], L)
        /\ \E w \in P : C3X(w, H, Wildcard(cp[1]), L)

TypeAbsent3(r, t, L) ==
    /\ t \notin r.types /\ "CNAME" \notin r.types
    /\ "rfc6840-type-at-delegation" \in L \/ (AncestorDelegation(r) => t = "DS")

NoData3(P, H, q, t, zone, L) ==
    \/ \E r \in P : M3(r, H, q) /\ TypeAbsent3(r, t, L)                              \* 8.5, 8.6 (and ENT)
    \/ "nodata-at-apex-unproven" \in L /\ q = zone /\ ~\E r \in P : M3(r, H, q)
    \/ /\ t = "DS"                                                                   \* 8.6 Opt-Out
       /\ ~\E r \in P : M3(r, H, q)
       /\ \/ \E cp \in CeProofs(P, H, q, zone, L) : cp[2].optout
          \/ "ds-optout-encloser-unproven" \in L /\ \E r \in P : C3X(r, H, q, L) /\ r.optout
    \/ \E cp \in CeProofs(P, H, q, zone, L) :                                       \* 8.7 wildcard no data
          /\ NoOptOut(cp[2], L)
          /\ \E w \in P : M3(w, H, Wildcard(cp[1])) /\ TypeAbsent3(w, t, L) /\ ~AncestorDelegation(w)

\* 8.8: the answer was expanded from *.ce; the next closer name is covered
WildAnswer3(P, H, q, ce, zone, L) ==
    /\ ProperSubdomain(q, ce) /\ (IsSubdomain(ce, zone) \/ "zone-unchecked-without-soa" \in L)
    /\ \E r \in P : C3X(r, H, NextCloser(q, ce), L) /\ NoOptOut(r, L)

(* THE oracle of C09 (without the iteration limits, see IterLimitsOk).        *)
(* HT: hash table.  zn: the zone the response comes from -- the owner of its  *)
(* SOA (negative responses) or the signer of the expanded answer (wildcard    *)
(* answers); <<>> if the response names none.                                 *)
\* RFC 5155 8.2 and "belonging to the response's zone"
ZoneOk(P, q, zn, L) ==
    LET zone == (CHOOSE r \in P : TRUE).zone IN
    "zone-unchecked-without-soa" \in L \/ (IF zn # <<>> THEN zone = zn ELSE IsSubdomain(q, zone))
\* everything that does not depend on the zone the response names
Entails3Core(P, HT, q, t, kind, ce, L) ==
    /\ P # {}
    /\ SameParams(P)
    /\ "zone-unchecked-without-soa" \in L \/ \A r1, r2 \in P : r1.zone = r2.zone
    /\ LET zone == (CHOOSE r \in P : TRUE).zone
           H    == HT[(CHOOSE r \in P : TRUE).params.id] IN
       CASE kind = "nxdomain" -> NxDomain3(P, H, q, zone, L)
         [] kind = "nodata"   -> NoData3(P, H, q, t, zone, L)
         [] kind = "wild"     -> \/ WildAnswer3(P, H, q, ce, zone, L)
                                 \/ "wildcard-answer-judged-as-nodata" \in L /\ NoData3(P, H, q, t, zone, L)
         [] OTHER -> FALSE
Entails3X(P, HT, q, t, kind, ce, zn, L) ==
    Entails3Core(P, HT, q, t, kind, ce, L) /\ ZoneOk(P, q, zn, L)
Entails3(P, HT, q, t, kind, ce, zn) == Entails3X(P, HT, q, t, kind, ce, zn, {})
ExplainedBy3(P, HT, q, t, kind, ce, zn) == { l \in Lax3Rules : Entails3X(P, HT, q, t, kind, ce, zn, {l}) }

\* boundary case left open as for NSEC: DS denied by a record with the SOA bit (child side of the cut)
OpenDsCase3(P, HT, q, t, kind) ==
    /\ kind = "nodata" /\ t = "DS" /\ P # {} /\ SameParams(P)
    /\ \E r \in P : M3(r, HT[r.params.id], q) /\ "SOA" \in r.types

(* C09, second sentence: iteration counts above the soft limit never give     *)
(* Secure, above the hard limit give Bogus (RFC 9276 3.2).                    *)
IterLimitsOk(P, soft, hard, verdict) ==
    /\ (\E r \in P : r.params.iter > hard) => verdict = "Bogus"
    /\ (\E r \in P : r.params.iter > soft) => verdict # "Secure"
=============================================================================
