-------------------------- MODULE Trace_UdpMatch --------------------------
(* Trace validation for the datagram half of C16 (obligation T: impl ->   *)
(* spec), monitor style.  Events recorded from the real UdpClientStream    *)
(* over a scripted socket provider:                                        *)
(*   reset  case, cr, ip, port      start of a query to ip:port            *)
(*   tx     t, id, qs               transmission t left the socket: the    *)
(*                                  ID and question section read off the   *)
(*                                  bytes given to send_to                 *)
(*   dgram  t, ip, port, dec, id, qs, tag [, claim]                        *)
(*                                  the socket of transmission t handed a  *)
(*                                  datagram to the resolver (= examined); *)
(*                                  concrete source, ID, question section  *)
(*   done   o, tag                  how the query ended; tag identifies    *)
(*                                  the datagram whose content was         *)
(*                                  returned to the caller (o = accept)    *)
(* The monitor derives the VIEW of every datagram from the concrete fields *)
(* with UdpMatchOps!View and judges with UdpMatchOps!Matches; it keeps     *)
(* only observable history.  dec = the datagram is a DNS response          *)
(* (decodable, QR = 1).  `claim` (present in replayed generator cases) *)
(* is the view the generator intended: a difference is an ADAPTER error of *)
(* the harness, reported separately, never a violation.                    *)
EXTENDS Naturals, Sequences, FiniteSets, TLC, Json, IOUtils, UdpMatchOps

Rec == ndJsonDeserialize(IOEnv.TRACE)

VARIABLES l,        \* next line of Rec
          c,        \* current case [id, cr, ip, port]
          txs,      \* transmissions so far: sequence of [ip, port, id, qs]
          hist,     \* hist[t]: sequence of [tag, v] examined on transmission t
          fin,      \* the query has ended
          skipping, bad

tvars == <<l, c, txs, hist, fin, skipping, bad>>

NoCase == [id |-> "none", cr |-> FALSE, ip |-> <<>>, port |-> 0]

Init == l = 1 /\ c = NoCase /\ txs = <<>> /\ hist = <<>> /\ fin = FALSE /\ skipping = FALSE /\ bad = 0

e == Rec[l]
Has(f) == f \in DOMAIN e

Reset ==
    /\ e.ev = "reset"
    /\ c' = [id |-> e.case, cr |-> e.cr, ip |-> e.ip, port |-> e.port]
    /\ txs' = <<>> /\ hist' = <<>> /\ fin' = FALSE /\ skipping' = FALSE /\ bad' = bad

\* the examined datagram the caller's result came from
Source(tag) == {tp \in {<<t, p>> : t \in 1..Len(hist), p \in 1..Cap} :
                    tp[2] <= Len(hist[tp[1]]) /\ hist[tp[1]][tp[2]].tag = tag}

TxOK    == e.t = Len(txs) + 1 /\ ~fin
DgramT  == e.t \in 1..Len(txs)
\* (a datagram examined after the query has ended is not forbidden; it still counts against the cap)
DgramOK ==
    /\ DgramT
    /\ Len(hist[e.t]) < Cap                            \* C16_AtMostThree
    /\ Has("claim") => View(txs[e.t], e) = e.claim     \* harness consistency
LastFromServer(t) == Len(hist[t]) > 0 /\ FromServer(hist[t][Len(hist[t])].v)
ErrorJustified ==
    \/ \A t \in 1..Len(hist) : Len(hist[t]) = 0
    \/ \E t \in 1..Len(hist) : (Len(hist[t]) = Cap \/ LastFromServer(t))
DoneOK ==
    /\ ~fin
    /\ e.o \in {"accept", "error", "timeout"}
    \* C16_AcceptOnlyMatching, C16_NoAcceptAfterCap
    /\ e.o = "accept" => \E tp \in Source(e.tag) : Matches(hist[tp[1]][tp[2]].v, c.cr)
    \* C16_ForeignIgnored: an error is owed to a datagram from the server, to the cap, or to
    \* nothing that was received at all -- never to a datagram from elsewhere
    /\ e.o = "error" => ErrorJustified

\* evaluate a state-level condition as a value (TLC would otherwise split its disjunctions into
\* separate, identical successor states)
Holds(b) == b = TRUE

EvAllowed ==
    \/ /\ e.ev = "tx" /\ Holds(TxOK)
       /\ txs' = Append(txs, [ip |-> c.ip, port |-> c.port, id |-> e.id, qs |-> e.qs])
       /\ hist' = Append(hist, <<>>)
       /\ UNCHANGED fin
    \/ /\ e.ev = "dgram" /\ Holds(DgramOK)
       /\ hist' = [hist EXCEPT ![e.t] = Append(@, [tag |-> e.tag, v |-> View(txs[e.t], e)])]
       /\ UNCHANGED <<txs, fin>>
    \/ /\ e.ev = "done" /\ Holds(DoneOK)
       /\ fin' = TRUE
       /\ UNCHANGED <<txs, hist>>

Why ==
    IF e.ev = "dgram" THEN
        IF ~DgramT THEN "ADAPTER: datagram for an unknown transmission"
        ELSE IF Len(hist[e.t]) >= Cap THEN "C16_AtMostThree: more than three datagrams examined on one transmission"
        ELSE "ADAPTER: concrete datagram does not have the view the generator intended"
    ELSE IF e.ev = "done" THEN
        IF fin THEN "ADAPTER: the query ended twice"
        ELSE IF e.o = "error" THEN
            "C16_ForeignIgnored: the query ended in an error on a datagram that did not come from the queried address and port"
        ELSE IF e.o = "accept" /\ Source(e.tag) = {} THEN
            "C16_NoAcceptAfterCap: completed with content that is not one of the (at most three per transmission) examined datagrams"
        ELSE "C16_AcceptOnlyMatching: completed with a datagram that does not match"
    ELSE "ADAPTER: unexpected event"

Matched == ~skipping /\ e.ev # "reset" /\ EvAllowed /\ UNCHANGED <<c, skipping, bad>>

Reject ==
    /\ ~skipping /\ e.ev # "reset" /\ ~ENABLED EvAllowed
    /\ PrintT(<<"MISMATCH", ToJson([case |-> c.id, line |-> l, event |-> e, why |-> Why, cr |-> c.cr,
                 view |-> IF e.ev = "dgram" /\ DgramT THEN <<View(txs[e.t], e)>> ELSE <<>>,
                 accepted |-> IF e.ev = "done" /\ e.o = "accept"
                              THEN {[t |-> tp[1], pos |-> tp[2], v |-> hist[tp[1]][tp[2]].v] : tp \in Source(e.tag)}
                              ELSE {},
                 examined |-> [t \in 1..Len(hist) |-> Len(hist[t])]])>>)
    /\ skipping' = TRUE /\ bad' = bad + 1
    /\ UNCHANGED <<c, txs, hist, fin>>

Skip == skipping /\ e.ev # "reset" /\ UNCHANGED <<c, txs, hist, fin, skipping, bad>>

Next == l <= Len(Rec) /\ l' = l + 1 /\ (Reset \/ Matched \/ Reject \/ Skip)

TraceSpec == Init /\ [][Next]_tvars

Consumed ==
    LET d == TLCGet("stats").diameter IN
    IF d - 1 = Len(Rec) THEN PrintT(<<"TRACE-CONSUMED", Len(Rec)>>)
    ELSE PrintT(<<"TRACE-STUCK", d, Len(Rec)>>) /\ FALSE
=============================================================================
