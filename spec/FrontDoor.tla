----------------------------- MODULE FrontDoor -----------------------------
(* C11 -- the request pipeline of the server as a machine, one action per    *)
(* stage, in the order a message passes them: header gate, opcode gate,      *)
(* question, access control, body, EDNS version, dispatch by opcode, zone     *)
(* selection, handler chain, reply.  The stages and their order are the       *)
(* design; the requirements C11_* (FrontDoorReq) do not know about stages     *)
(* and are checked on what was sent back.  Two messages are processed one     *)
(* after the other (the second stands for "later requests": C11_Survives).    *)
EXTENDS FrontDoorReq, Sequences, TLC

CONSTANTS Requests,   \* set of request attribute records
          Configs     \* set of configurations [origins, chain, allow, deny]

VARIABLES cfg, req,
          pc,         \* "idle" | stage names | "done"
          replies,    \* replies sent for the current request
          searched,   \* handlers of the chain asked so far (sequence of indices)
          consulted,  \* handlers consulted after a Continue
          result,     \* index of the handler whose result is held (0 = none)
          served      \* requests completely processed

vars == <<cfg, req, pc, replies, searched, consulted, result, served>>

NoReq == [short |-> TRUE, qr |-> FALSE, op |-> 0, qd |-> 0, qok |-> FALSE, body |-> "ok", edns |-> "none",
          src |-> <<0, 0, 0, 0>>, qname |-> <<>>, loose |-> FALSE]

Init == /\ cfg \in Configs /\ req = NoReq /\ pc = "idle" /\ replies = <<>> /\ searched = <<>>
        /\ consulted = {} /\ result = 0 /\ served = 0

Reply(rc, q, z, h) == replies' = Append(replies, [rcode |-> rc, question |-> q, zone |-> z, handler |-> h])
Goto(l) == pc' = l
Keep(vs) == UNCHANGED vs

\* a message arrives (at most two per behaviour)
Arrive ==
    /\ pc = "idle" /\ served < 2
    /\ \E r \in Requests : req' = r
    /\ replies' = <<>> /\ searched' = <<>> /\ consulted' = {} /\ result' = 0
    /\ Goto("header") /\ Keep(<<cfg, served>>)

\* "shorter than a header": nothing at all
DropShort    == pc = "header" /\ req.short /\ Goto("done") /\ Keep(<<cfg, req, replies, searched, consulted, result, served>>)
\* "messages that are themselves responses": nothing at all
DropResponse == pc = "header" /\ ~req.short /\ req.qr /\ Goto("done") /\ Keep(<<cfg, req, replies, searched, consulted, result, served>>)
ReadHeader   == pc = "header" /\ ~req.short /\ ~req.qr /\ Goto("opcode") /\ Keep(<<cfg, req, replies, searched, consulted, result, served>>)

\* opcodes nobody could implement are turned away before the question is read (no question
\* in that reply); STATUS and NOTIFY are known opcodes and are turned away at dispatch
KnownOp(op) == op \in {0, 2, 4, 5}
RejectOpcode ==
    /\ pc = "opcode" /\ ~KnownOp(req.op)
    /\ Reply("NOTIMP", "absent", NoZone, 0) /\ Goto("done") /\ Keep(<<cfg, req, searched, consulted, result, served>>)
PassOpcode == pc = "opcode" /\ KnownOp(req.op) /\ Goto("question") /\ Keep(<<cfg, req, replies, searched, consulted, result, served>>)

ReadQuestion ==
    /\ pc = "question"
    /\ IF QuestionOk(req) THEN Goto("acl") /\ Keep(replies)
       ELSE Reply("FORMERR", "absent", NoZone, 0) /\ Goto("done")
    /\ Keep(<<cfg, req, searched, consulted, result, served>>)

\* where the lists leave the decision open the machine may go either way
CheckAcl ==
    /\ pc = "acl"
    /\ \E d \in AclDecisions(cfg.allow, cfg.deny, req.src) :
          IF d = "deny" THEN Reply("REFUSED", "same", NoZone, 0) /\ Goto("done")
          ELSE Goto("body") /\ Keep(replies)
    /\ Keep(<<cfg, req, searched, consulted, result, served>>)

\* body "unknown" = the abstract reader cannot tell: either outcome
ReadBody ==
    /\ pc = "body"
    /\ \E ok \in (IF req.body = "ok" THEN {TRUE} ELSE IF req.body = "bad" THEN {FALSE} ELSE BOOLEAN) :
          IF ok THEN Goto("edns") /\ Keep(replies)
          ELSE Reply("FORMERR", "same", NoZone, 0) /\ Goto("done")
    /\ Keep(<<cfg, req, searched, consulted, result, served>>)

CheckEdnsVersion ==
    /\ pc = "edns"
    /\ \E v1 \in (IF req.edns = "v1" THEN {TRUE} ELSE IF req.edns = "unknown" THEN BOOLEAN ELSE {FALSE}) :
          IF v1 THEN Reply("BADVERS", "same", NoZone, 0) /\ Goto("done")
          ELSE Goto("dispatch") /\ Keep(replies)
    /\ Keep(<<cfg, req, searched, consulted, result, served>>)

DispatchQuery  == pc = "dispatch" /\ req.op = QUERY /\ Goto("find") /\ Keep(<<cfg, req, replies, searched, consulted, result, served>>)
\* what an update is answered with is C12's business; here: one reply, question echoed
DispatchUpdate ==
    /\ pc = "dispatch" /\ req.op = UPDATE
    /\ \E rc \in {"NOERROR", "REFUSED", "NOTAUTH", "SERVFAIL", "FORMERR"} : Reply(rc, "same", NoZone, 0)
    /\ Goto("done") /\ Keep(<<cfg, req, searched, consulted, result, served>>)
DispatchOther ==
    /\ pc = "dispatch" /\ req.op \notin {QUERY, UPDATE}
    /\ Reply("NOTIMP", "same", NoZone, 0) /\ Goto("done") /\ Keep(<<cfg, req, searched, consulted, result, served>>)

Zone == AnsweringZone(cfg.origins, req.qname)
Chain == cfg.chain[Zone]

FindZone ==
    /\ pc = "find"
    /\ IF Zone = NoZone THEN Reply("REFUSED", "same", NoZone, 0) /\ Goto("done")
       ELSE Goto("chain") /\ Keep(replies)
    /\ Keep(<<cfg, req, searched, consulted, result, served>>)

\* ask the next handler of the chain
ChainStep ==
    /\ pc = "chain" /\ Len(searched) < Len(Chain)
    /\ LET i == Len(searched) + 1 IN
       /\ searched' = Append(searched, i)
       /\ CASE Chain[i] = "S" -> Goto("chain") /\ Keep(result)
            [] Chain[i] = "C" -> Goto("consult") /\ result' = i
            [] Chain[i] = "B" -> Goto("reply") /\ result' = i
    /\ Keep(<<cfg, req, replies, consulted, served>>)

AllSkipped ==
    /\ pc = "chain" /\ Len(searched) = Len(Chain)
    /\ Reply("SERVFAIL", "same", NoZone, 0) /\ Goto("done") /\ Keep(<<cfg, req, searched, consulted, result, served>>)

\* after a Continue every other handler is consulted (and here leaves the result alone)
ConsultStep ==
    /\ pc = "consult"
    /\ \E j \in (1..Len(Chain)) \ (consulted \cup {result}) : consulted' = consulted \cup {j}
    /\ Keep(<<cfg, req, pc, replies, searched, result, served>>)
ConsultDone ==
    /\ pc = "consult" /\ (1..Len(Chain)) \ (consulted \cup {result}) = {}
    /\ Goto("reply") /\ Keep(<<cfg, req, replies, searched, consulted, result, served>>)

SendAnswer ==
    /\ pc = "reply"
    /\ \E rc \in ZoneRcodes : Reply(rc, "same", Zone, result)
    /\ Goto("done") /\ Keep(<<cfg, req, searched, consulted, result, served>>)

\* the exchange is over; nothing of it is remembered
Finish ==
    /\ pc = "done" /\ Goto("idle") /\ served' = served + 1
    /\ req' = NoReq /\ replies' = <<>> /\ searched' = <<>> /\ consulted' = {} /\ result' = 0 /\ Keep(cfg)

Next ==
    \/ Arrive \/ DropShort \/ DropResponse \/ ReadHeader \/ RejectOpcode \/ PassOpcode \/ ReadQuestion \/ CheckAcl
    \/ ReadBody \/ CheckEdnsVersion \/ DispatchQuery \/ DispatchUpdate \/ DispatchOther \/ FindZone \/ ChainStep
    \/ AllSkipped \/ ConsultStep \/ ConsultDone \/ SendAnswer \/ Finish

Spec == Init /\ [][Next]_vars
FairSpec == Spec /\ WF_vars(Next)

---------------------------------------------------------------------------
Obs == [replies |-> Len(replies), qrset |-> TRUE, idok |-> TRUE,
        rcode |-> IF replies = <<>> THEN "NONE" ELSE replies[1].rcode,
        question |-> IF replies = <<>> THEN "absent" ELSE replies[1].question,
        zone |-> IF replies = <<>> THEN NoZone ELSE replies[1].zone,
        handler |-> IF replies = <<>> THEN 0 ELSE replies[1].handler,
        searched |-> searched, consulted |-> consulted, panic |-> FALSE]
Completed == pc = "done"

TypeOK == pc \in {"idle", "header", "opcode", "question", "acl", "body", "edns", "dispatch", "find", "chain",
                  "consult", "reply", "done"} /\ served \in 0..2 /\ Len(replies) <= 1

\* exactly one reply for everything that is not a response / too short, none for those
C11_ExactlyOne == Completed => Len(replies) = ExpectedReplies(req)
\* NOTIMP / FORMERR / REFUSED / BADVERS exactly in the stated situations
C11_Class == (Completed /\ replies # <<>>) => replies[1].rcode \in PermittedRcodes(req, cfg)
\* the question comes back whenever it could be read (queries and updates)
C11_Echo == (Completed /\ replies # <<>>) =>
                /\ replies[1].question # "different"
                /\ EchoRequired(req) => replies[1].question = "same"
\* a zone's answer comes from the zone with the longest matching origin, from the first
\* handler of its chain that does not skip, and nobody is asked once a handler has said Break
C11_LongestSuffix == (Completed /\ replies # <<>> /\ replies[1].zone # NoZone) =>
                        /\ IsSubdomain(req.qname, replies[1].zone)
                        /\ \A o \in cfg.origins : IsSubdomain(req.qname, o) => Len(o) <= Len(replies[1].zone)
C11_Chain == (Completed /\ replies # <<>> /\ replies[1].handler # 0) =>
                /\ replies[1].handler = FirstActive(Chain)
                /\ Chain[replies[1].handler] = "B" => consulted = {}
                /\ searched = [i \in 1..replies[1].handler |-> i]
\* REFUSED for a denied source, never an answer
C11_AclLongestPrefix == (Completed /\ replies # <<>> /\ AclDecisions(cfg.allow, cfg.deny, req.src) = {"deny"}) =>
                            replies[1].rcode \in {"REFUSED", "NOTIMP", "FORMERR"} /\ replies[1].zone = NoZone
\* everything together, as the conformance checks evaluate it
C11_Allowed == Completed => Allowed(req, cfg, Obs)
\* later requests are served: whatever came first, the machine comes back to idle
C11_Survives == []<>(pc = "idle")
=============================================================================
