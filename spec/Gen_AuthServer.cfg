\* stand-alone example configuration (the check generates its own, see lib/checks/c10.py)
SPECIFICATION GSpec
CONSTANTS
  MaxNodes = 1
  OwnerSet <- Q_Owners
  HostKinds = {"A", "TXT", "MULTI"}
  DelegKinds = {"NS", "NSG", "NSD"}
  TargetSet <- Q_Targets
  QRelSet <- G_QRel
  ActiveDev <- AllDeviations
INVARIANT Emit
CHECK_DEADLOCK FALSE
