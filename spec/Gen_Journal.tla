---------------------------- MODULE Gen_Journal ----------------------------
(* Histories for the cut-journal experiment (C14, obligation R).             *)
(* The generator is the C12 generator (Gen_Update: the Update machine with   *)
(* the outcome the specification prescribes after every message) over a      *)
(* universe chosen for the journal: messages that write 0, 1, 2 or 3 rows,   *)
(* with and without an SOA row, accepted and rejected.  The expected zone /  *)
(* serial after message j is the boundary B_j of JournalOps.  The crash      *)
(* points are not picked by TLC: the driver stops the process after EVERY    *)
(* journal row of the run (and, in the continued history, after every row    *)
(* again), which is the whole set the property quantifies over.              *)
EXTENDS Gen_Update_U

ZS == {<<AP, "SOA", 0>>, <<AP, "NS", 1>>, <<NA, "A", 1>>}

JAdd == {RR(o, "IN", t, 300, rd) : o \in {NA, NB}, t \in {"A", "CNAME"}, rd \in Rds} \cup {RR(AP, "IN", "NS", 300, 2)}
JDel == {RR(o, "NONE", "A", 0, rd) : o \in {NA, NB}, rd \in Rds} \cup {RR(AP, "NONE", "NS", 0, 1)}
JSet == {RR(NA, "ANY", "A", 0, 0), RR(NB, "ANY", "CNAME", 0, 0), RR(NA, "ANY", "ANY", 0, 0)}
JSoa == {SOARR(AP, "IN", 300, <<0, 20>>)}
JUpd == JAdd \cup JDel \cup JSet \cup JSoa
JTwo == {RR(NB, "IN", "A", 300, 1), RR(NA, "NONE", "A", 0, 1), RR(NA, "IN", "A", 300, 2), RR(NA, "ANY", "ANY", 0, 0),
         RR(NA, "IN", "CNAME", 300, 1), RR(NB, "NONE", "A", 0, 1)}
JMsgs1 == {[pre |-> <<>>, upd |-> <<u>>] : u \in JUpd}
JMsgs2 == {[pre |-> <<>>, upd |-> <<u, v>>] : u \in JTwo, v \in JTwo}
JMsgs3 == {[pre |-> <<>>, upd |-> <<RR(NB, "IN", "A", 300, 1), RR(NA, "NONE", "A", 0, 1), RR(NB, "IN", "A", 300, 2)>>]}
JRej   == {[pre |-> <<RR(NB, "ANY", "A", 0, 0)>>, upd |-> <<RR(NB, "IN", "A", 300, 2)>>],     \* b/A exists?
           [pre |-> <<RR(NA, "NONE", "ANY", 0, 0)>>, upd |-> <<RR(NB, "IN", "A", 300, 2)>>],  \* a not in use?
           [pre |-> <<>>, upd |-> <<RR(NB, "IN", "A", 300, 2), RR(NA, "CH", "A", 0, 1)>>],    \* prescan FORMERR
           [pre |-> <<>>, upd |-> <<>>]}
\* a zone-class update RR with RDLENGTH 0 (UpdateOps!EmptyAdd): alone, after and before a real add
JEmpty == {[pre |-> <<>>, upd |-> <<RR(NB, "IN", "A", 300, 0)>>],
           [pre |-> <<>>, upd |-> <<RR(NB, "IN", "A", 300, 1), RR(NB, "IN", "A", 300, 0)>>],
           [pre |-> <<>>, upd |-> <<RR(NA, "IN", "A", 300, 0), RR(NB, "IN", "A", 300, 2)>>]}
\* long journals: the zone ZS padded with n more A records at one owner, so that the initial dump
\* has 4 + n rows, then three messages whose rows are add, delete, SOA / add, SOA / delete, SOA.
\* Sweeping n moves each kind of row over a given row number (65, 130, ...).
NP == <<"p">> \o AP
ZPad(pn) == ZS \cup {<<NP, "A", k>> : k \in 1..pn}
JLong1 == [pre |-> <<>>, upd |-> <<RR(NB, "IN", "A", 300, 1), RR(NA, "NONE", "A", 0, 1)>>]
JLong2 == [pre |-> <<>>, upd |-> <<RR(NB, "IN", "A", 300, 2)>>]
JLong3 == [pre |-> <<>>, upd |-> <<RR(NP, "NONE", "A", 0, 3)>>]
\* DNSSEC-related types as ORDINARY data of an unsigned zone: the DS RRset of a delegation (one is in
\* the zone file already), CDS / CDNSKEY / DNSKEY at the apex or a host, added and deleted by UPDATE.
\* They are zone content like any other: what was acknowledged has to be there after a restart.
ZD == ZS \cup {<<NB, "NS", 1>>, <<NB, "DS", 1>>}
JSecUpd == {RR(NB, "IN", "DS", 300, 2), RR(NB, "NONE", "DS", 0, 1), RR(NB, "ANY", "DS", 0, 0),
            RR(AP, "IN", "CDS", 300, 1), RR(AP, "IN", "CDNSKEY", 300, 1), RR(AP, "IN", "DNSKEY", 300, 1),
            RR(NA, "IN", "DNSKEY", 300, 2), RR(AP, "NONE", "CDS", 0, 1), RR(AP, "ANY", "DNSKEY", 0, 0),
            RR(AP, "ANY", "CDNSKEY", 0, 0)}
JSec1 == {[pre |-> <<>>, upd |-> <<u>>] : u \in JSecUpd}
\* a zone file with a record whose owner is OUTSIDE the zone (glue for a name server elsewhere): the
\* parser and the zone take it, the initial dump writes it, a restart has to read it back
ZG == ZS \cup {<<<<"ns1", "example", "net">>, "A", 9>>}
\* zones the server signs itself (Signeds = {TRUE}): a DNSKEY somebody else publishes at the apex by
\* update (a stand-by key: not re-created at start-up, the journal has to bring it back), the
\* replace-everything idiom <apex ANY ANY>, ordinary updates around them
JSg1 == {[pre |-> <<>>, upd |-> <<RR(AP, "IN", "DNSKEY", 300, 1)>>],
         [pre |-> <<>>, upd |-> <<RR(AP, "IN", "DNSKEY", 300, 2), RR(NB, "IN", "A", 300, 1)>>]}
JSg2 == {[pre |-> <<>>, upd |-> <<RR(AP, "ANY", "ANY", 0, 0)>>],
         [pre |-> <<>>, upd |-> <<RR(AP, "ANY", "ANY", 0, 0), RR(AP, "IN", "A", 300, 1)>>],
         [pre |-> <<>>, upd |-> <<RR(NA, "IN", "A", 300, 2)>>],
         [pre |-> <<>>, upd |-> <<RR(NA, "NONE", "A", 0, 1), RR(NA, "IN", "CNAME", 300, 1)>>]}
JMsgs  == JMsgs1 \cup JMsgs2 \cup JMsgs3 \cup JRej
JSmall == JMsgs1 \cup JMsgs3 \cup JRej
=============================================================================
