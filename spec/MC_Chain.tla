------------------------------ MODULE MC_Chain ------------------------------
(* Exhaustive configurations for Chain (obligation D).                      *)
EXTENDS Chain

\* every valid world of depth n with the given key layouts and anchor sets
WorldsOfDepth(n, keyOpts, anchorSets) ==
    {wd \in [n : {n}, signed : [1..n -> BOOLEAN], link : [1..n -> LinkKinds \cup {"none"}],
             keys : [1..n -> keyOpts], anchors : anchorSets] : ValidWorld(wd)}

\* quick: depth 2 and 3, one key, root anchor (+ leaf anchor at depth 3)
MC_WorldsSmall == WorldsOfDepth(2, {1}, {{1}}) \cup WorldsOfDepth(3, {1}, {{1}, {1, 3}})
\* two-key zones at depth 2 and 3 (all zones with the same number of keys is enough for the key rules)
UnsignedOneKey(S) == {wd \in S : \A i \in 1..wd.n : wd.signed[i] \/ wd.keys[i] = 1}
MC_WorldsKeys  == UnsignedOneKey(WorldsOfDepth(2, {1, 2}, {{1}, {1, 2}}))
MC_WorldsKeys3 == UnsignedOneKey(WorldsOfDepth(3, {1, 2}, {{1}}))
MC_AsIs == {"keys-by-ds-only", "any-signer", "ns-finds-cut"}
\* the AsIs configuration: two faults (the NS rule needs two) on two worlds
MC_WorldsAsIs == {wd \in WorldsOfDepth(3, {1}, {{1}}) :
                     /\ wd.signed = <<TRUE, TRUE, TRUE>> /\ wd.link[2] = "ds" /\ wd.link[3] \in {"ds", "nods"}}
\* two faults: depth 2 and 3 under the root anchor only (the extra anchor is covered with one fault
\* here and with two faults by the generator)
MC_WorldsTwo == WorldsOfDepth(2, {1}, {{1}}) \cup WorldsOfDepth(3, {1}, {{1}})
MC_WorldsDeep == WorldsOfDepth(4, {1}, {{1}, {1, 3}})

MC_Queries == QueryKinds
MC_FaultsOf(wd, qq) == ApplicableFaults(wd, qq)
=============================================================================
