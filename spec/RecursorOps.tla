---------------------------- MODULE RecursorOps ----------------------------
(* C19 -- recursion: bailiwick and termination.  Constant-free operators     *)
(* shared by the resolver model (Recursor), the generator (Gen_Recursor)     *)
(* and the trace monitor (Trace_Recursor).                                   *)
(*                                                                           *)
(* A name is a sequence of labels, leftmost first (<<"w","l","t1">> is       *)
(* w.l.t1.), the root is <<>>.  An address is a string ("a7").  A record is  *)
(*   [o |-> owner, t |-> "A" | "NS" | "CNAME" | "SOA", d |-> data]           *)
(* where data is always a sequence of strings: <<address>> for A, the target *)
(* name for NS and CNAME, <<>> for SOA.                                      *)
(* A simulated internet `net` is                                             *)
(*   zones  set of [apex, soa, ips, serving, recs, cuts] (soa: the owner of  *)
(*          the SOA record its servers put into negative answers, normally   *)
(*          the apex): `ips` are the addresses                               *)
(*          the zone is delegated to (what its parent / the root hints say), *)
(*          `serving` the addresses that really answer for it (a lame server *)
(*          is in ips but not in serving), `recs` the zone's records incl.   *)
(*          the NS sets of its cuts and glue, `cuts` the delegated children; *)
(*   roots  the root hints;                                                  *)
(*   inj    what hostile (or broken) servers add to their responses: set of  *)
(*          [ip, sec, when, qn, r] -- record r in section sec of the         *)
(*          responses to questions of type `when` ("any": every type) about  *)
(*          name qn (<<"*">>: every name);                                   *)
(*   conc   the concrete address (AccessOps) each address string stands for; *)
(*   denyS, denyA   the configured server / answer filter: access control    *)
(*          sets [allow, deny] of networks (AccessOps).                      *)
(* Address records are of type "A" or "AAAA" according to their address.     *)
EXTENDS AccessOps

Root == <<>>
InZone(n, z) == Len(z) <= Len(n) /\ SubSeq(n, Len(n) - Len(z) + 1, Len(n)) = z
Parent(n) == Tail(n)

Rec(o, t, d) == [o |-> o, t |-> t, d |-> d]
IsAddr(r) == r.t \in {"A", "AAAA"}
AddrOf(r) == r.d[1]

(***************************************************************************)
(* The bailiwick rule of the property statement, on observables.           *)
(* "records whose owner lies outside the zone the answering server was     *)
(* delegated": the server at `ip` was asked question qn; a record it sends  *)
(* back is in bailiwick iff ip is delegated some zone z that contains both *)
(* the question and the record's owner.                                    *)
(***************************************************************************)
Delegated(net, ip) == {z.apex : z \in {y \in net.zones : ip \in y.ips}}
InBailiwick(net, ip, qn, r) == \E z \in Delegated(net, ip) : InZone(qn, z) /\ InZone(r.o, z)

\* log entries: [ip, qn, qt, recs] -- every response a server sent, all sections together
GoodlyReceived(net, log) ==
    UNION {{r \in log[i].recs : InBailiwick(net, log[i].ip, log[i].qn, r)} : i \in DOMAIN log}

\* C19_NoPoison for handed-out records (returned to the caller, or served again later from the
\* caches): each was received, in bailiwick, from some server
PoisonIn(net, log, recs) == recs \ GoodlyReceived(net, log)

\* C19_NoPoison for nameserver addresses: a contacted address is a root hint or was received,
\* in bailiwick, as an address record before
AddrKnownBy(net, log, k) ==
    net.roots \cup {AddrOf(r) : r \in {x \in GoodlyReceived(net, SubSeq(log, 1, k)) : IsAddr(x)}}

\* C19_Filters
DeniedBy(net, acs, ip) == ip \in DOMAIN net.conc /\ Denied(acs, net.conc[ip])
DeniedContact(net, ip) == DeniedBy(net, net.denyS, ip)
DeniedAnswers(net, recs) == {r \in recs : IsAddr(r) /\ DeniedBy(net, net.denyA, AddrOf(r))}

(***************************************************************************)
(* C19_Terminates: the number of upstream queries of one resolution is     *)
(* bounded by the configured limits.  Every upstream query asks one of the *)
(* addresses of the internet about one name for one of four purposes (the  *)
(* record type asked for, NS, A, AAAA); following a referral, a glueless   *)
(* nameserver name or an alias each consume recursion depth, so no         *)
(* (address, name, purpose) needs to be asked more often than the depth    *)
(* limits allow.  The bound is deliberately generous: it separates         *)
(* "bounded by the limits" from "runs away", not efficient from wasteful.  *)
(***************************************************************************)
AddrsOf(net) == net.roots \cup UNION {z.ips \cup z.serving : z \in net.zones}
            \cup {AddrOf(r) : r \in {x \in UNION {z.recs : z \in net.zones} : IsAddr(x)}}
            \cup {AddrOf(i.r) : i \in {x \in net.inj : IsAddr(x.r)}}
NamesOf(net) == {r.o : r \in UNION {z.recs : z \in net.zones}}
            \cup {r.d : r \in {x \in UNION {z.recs : z \in net.zones} : x.t \in {"NS", "CNAME"}}}
            \cup {z.apex : z \in net.zones}
\* MAX_CNAME_LOOKUPS: "maximum number of cname records to look up in a CNAME chain, regardless of the
\* recursion depth limit" (recursor/handle.rs); it bounds the alias lookups of one client question
\* whatever shape the aliases have (chains, loops, trees of several aliases per response)
MaxCnameLookups == 64
InfraNames(net) == {z.apex : z \in net.zones} \cup {r.d : r \in {x \in UNION {z.recs : z \in net.zones} : x.t = "NS"}}
MaxLabels(net) == LET ns == NamesOf(net) IN IF ns = {} THEN 0 ELSE Len(CHOOSE n \in ns : \A m \in ns : Len(m) <= Len(n))
\* one name: finding (or failing to find) the servers of every zone and nameserver name of the
\* internet, each address asked for each purpose as often as the depth limits allow, plus the walk
\* down the name's own labels
PerName(net, lim) ==
    4 * Cardinality(AddrsOf(net)) * (Cardinality(InfraNames(net)) + MaxLabels(net) + 2) * (lim.ns + lim.rec + 2)
\* one client question: its own name and at most MaxCnameLookups alias targets
Bound(net, lim) == (MaxCnameLookups + 1) * PerName(net, lim)

\* recursion_limit bounds how deep aliases are followed: the question's own name is at depth 0, the target
\* of an alias received in a response about a name at depth d is at depth d + 1 (first sighting counts).
\* Folded over the log; dm maps names to depths.
RECURSIVE AliasDepths(_, _, _)
AliasDepths(log, i, dm) ==
    IF i > Len(log) THEN dm
    ELSE LET x  == log[i].qn
             dx == IF x \in DOMAIN dm THEN dm[x] ELSE 0
             ts == {r.d : r \in {y \in log[i].recs : y.t = "CNAME"}}
         IN AliasDepths(log, i + 1,
                        [n \in DOMAIN dm \cup ts \cup {x} |-> IF n \in DOMAIN dm THEN dm[n] ELSE IF n = x THEN dx ELSE dx + 1])
\* no name deeper than the limit is asked about upstream (the alias chase, not the search for nameserver
\* addresses, which has its own limit)
AliasDepthOk(log, qn, lim) ==
    LET dm == AliasDepths(log, 1, [n \in {} |-> 0]) IN
    qn \in DOMAIN dm => dm[qn] <= lim.rec

\* the alias targets looked up so far: names some received CNAME record points at that were then asked
\* about upstream
AliasTargetsAsked(log) ==
    LET targets == {r.d : r \in {x \in UNION {log[i].recs : i \in DOMAIN log} : x.t = "CNAME"}}
    IN {log[i].qn : i \in DOMAIN log} \cap targets
\* (one more than the limit: the question's own name may itself be somebody's alias target)
AliasBudgetOk(log, questions) == Cardinality(AliasTargetsAsked(log)) <= questions * (MaxCnameLookups + 1)

\* "... never cached, or used": a negative answer about name qn may be served from the cache only as
\* long as a negative TTL derived from records received IN BAILIWICK entitles it to -- the SOA of a
\* response about qn, soaTtl = min(its TTL, its MINIMUM) (RFC 2308 section 5); without such a record,
\* not beyond the configured minimum negMin
NegLife(net, log, qn, soaTtl, negMin) ==
    IF \E i \in DOMAIN log : log[i].qn = qn /\ \E r \in log[i].recs : r.t = "SOA" /\ InBailiwick(net, log[i].ip, log[i].qn, r)
    THEN IF soaTtl > negMin THEN soaTtl ELSE negMin
    ELSE negMin

\* alias chasing in the stub resolver (CachingClient): "ends with an answer or an error after a number of
\* upstream queries bounded by" its hop limit: the first query plus at most StubHops followed aliases
StubHops == 8
StubQueriesOk(asked) == asked <= StubHops + 1

(***************************************************************************)
(* What an authoritative server sends (RFC 1034 section 4.3.2), used by    *)
(* the resolver model.  A response is [rc, aa, an, ns, ad] with sets of    *)
(* records per section.                                                    *)
(***************************************************************************)
Longest(S) == CHOOSE x \in S : \A y \in S : Len(y) <= Len(x)
ServedAt(net, ip) == {z \in net.zones : ip \in z.serving}
Soa(z) == Rec(z.soa, "SOA", <<>>)        \* (a broken or hostile server may own its SOA elsewhere)
Resp(rc, aa, an, ns, ad) == [rc |-> rc, aa |-> aa, an |-> an, ns |-> ns, ad |-> ad]

GlueFor(z, nsrecs) == {g \in z.recs : IsAddr(g) /\ \E n \in nsrecs : n.d = g.o}

Honest(net, ip, qn, qt) ==
    LET zs == {z \in ServedAt(net, ip) : InZone(qn, z.apex)} IN
    IF zs = {} THEN Resp("refused", FALSE, {}, {}, {})
    ELSE LET z    == CHOOSE x \in zs : \A y \in zs : Len(y.apex) <= Len(x.apex)
             cuts == {c \in z.cuts : InZone(qn, c)}
         IN IF qt = "DS" /\ qn \in z.cuts
            \* the DS RRset of a delegated zone lives on the parent side of the cut (RFC 4035 3.1.4.1):
            \* answered here, with authority (no DS records in these internets: no data)
            THEN Resp("noerror", TRUE, {}, {Soa(z)}, {})
            ELSE IF cuts # {}
            THEN LET c  == Longest(cuts)
                     nr == {r \in z.recs : r.o = c /\ r.t = "NS"}
                 IN Resp("noerror", FALSE, {}, nr, GlueFor(z, nr))
            ELSE LET exact == {r \in z.recs : r.o = qn /\ r.t = qt}
                     alias == {r \in z.recs : r.o = qn /\ r.t = "CNAME"}
                     below == {r \in z.recs : InZone(r.o, qn)}
                 IN IF exact # {} THEN Resp("noerror", TRUE, exact, {}, IF qt = "NS" THEN GlueFor(z, exact) ELSE {})
                    ELSE IF alias # {} /\ qt # "CNAME" THEN Resp("noerror", TRUE, alias, {}, {})
                    ELSE IF below # {} \/ qn = z.apex THEN Resp("noerror", TRUE, {}, {Soa(z)}, {})
                    ELSE Resp("nxdomain", TRUE, {}, {Soa(z)}, {})

Injected(net, ip, sec, qn, qt) ==
    {i.r : i \in {x \in net.inj : x.ip = ip /\ x.sec = sec /\ x.when \in {"any", qt} /\ x.qn \in {<<"*">>, qn}}}

\* what the server at ip really sends: the honest response plus whatever it is scripted to add
Sent(net, ip, qn, qt) ==
    LET h == Honest(net, ip, qn, qt) IN
    [h EXCEPT !.an = @ \cup Injected(net, ip, "an", qn, qt),
              !.ns = @ \cup Injected(net, ip, "ns", qn, qt),
              !.ad = @ \cup Injected(net, ip, "ad", qn, qt)]

AllOf(resp) == resp.an \cup resp.ns \cup resp.ad
=============================================================================
