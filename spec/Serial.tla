------------------------------- MODULE Serial -------------------------------
(* RFC 1982 serial number arithmetic for SERIAL_BITS = 32.                   *)
(* TLC integers are 32-bit signed, so a serial travels as a pair             *)
(* <<hi, lo>> of 16-bit halves (value = hi * 65536 + lo).  Constant-free.    *)
EXTENDS Naturals, Sequences

IsSerial(s) == /\ Len(s) = 2 /\ s[1] \in 0..65535 /\ s[2] \in 0..65535

\* RFC 1982 section 3.1: addition of 1, wrapping from 2^32 - 1 to 0
SerialInc(s) ==
    IF s[2] < 65535 THEN <<s[1], s[2] + 1>>
    ELSE IF s[1] < 65535 THEN <<s[1] + 1, 0>>
    ELSE <<0, 0>>

\* (a + d) mod 2^32 for pairs
SerialPlus(a, d) ==
    LET lo == a[2] + d[2]
        c  == IF lo >= 65536 THEN 1 ELSE 0
    IN  <<(a[1] + d[1] + c) % 65536, lo % 65536>>

\* (b - a) mod 2^32, again as a pair
SerialDiff(a, b) ==
    LET borrow == IF b[2] < a[2] THEN 1 ELSE 0
        lo == IF b[2] < a[2] THEN b[2] + 65536 - a[2] ELSE b[2] - a[2]
        h  == b[1] + 65536 - a[1] - borrow
    IN  <<h % 65536, lo>>

\* RFC 1982 section 3.2: a < b iff a # b and ((b - a) mod 2^32) < 2^31.
\* The comparison is undefined when the distance is exactly 2^31.
SerialUndefined(a, b) == SerialDiff(a, b) = <<32768, 0>>
SerialLT(a, b) == a # b /\ SerialDiff(a, b)[1] < 32768
SerialGT(a, b) == SerialLT(b, a)
SerialLE(a, b) == a = b \/ SerialLT(a, b)
SerialGE(a, b) == SerialLE(b, a)
=============================================================================
