SPECIFICATION Spec
CONSTANTS
  Type <- MCI_Type
  Class <- MC_Class
  ZoneOwner <- MCI_Owner
  RdataUniverse <- MCI_Universe
  MaxZone = 2
  MaxPres = 3
  SigBase <- MC_SigBase
  TtlSet <- MC_TtlSet
  ExpandSet <- MC_Expand
  Rule = "rfc"
INVARIANTS TypeOK C05_Form C05_OrderInvariant C05_StrictOrder C05_TotalOrder C05_SelfVerify
CHECK_DEADLOCK FALSE
