------------------------------- MODULE MC_Nsec3 -------------------------------
(* Exhaustive configurations for Nsec3 (C09, obligation D).                   *)
EXTENDS Nsec3, Nsec3Scopes
=============================================================================
