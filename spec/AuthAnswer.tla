----------------------------- MODULE AuthAnswer -----------------------------
(* The answer an authoritative server must give (C10).  Constant-free; used  *)
(* unchanged by MC_AuthServer (design check), Gen_AuthServer (spec -> impl)  *)
(* and Trace_AuthServer (impl -> spec).                                      *)
(*                                                                           *)
(* Sources, cited at the operators:                                          *)
(*   RFC 1034 section 4.3.2  the lookup algorithm (steps 2, 3a, 3b, 3c, 4)   *)
(*   RFC 2308 sections 2.1, 2.2, 3   name error / no data, SOA in authority  *)
(*   RFC 4592 sections 2.2, 3.3, 4.x  closest encloser, source of synthesis  *)
(*   RFC 4035 section 3.1.4.1  DS is answered from the parent side of a cut  *)
(*   RFC 8482 section 4.1  QTYPE=ANY may be answered with a subset of RRsets *)
(*   RFC 4035 section 3.1  RRSIGs and denial proofs when DO is set           *)
(*                                                                           *)
(* A zone is a set of resource records [o |-> owner, t |-> type, d |-> data] *)
(* where d is always a sequence of naturals (a name for CNAME, NS, MX; a     *)
(* one-element identifier for everything else) so that all values stay       *)
(* comparable for TLC.  Nothing here is derived from the implementation.     *)
EXTENDS AuthNames, SequencesExt

\* How many RRsets of a CNAME chain must be followed before a server may give up.
\* The RFCs set no bound; this one is an assumption of the check (stated in the evidence).
MinChase == 8

---------------------------------------------------------------------------
(* Zone view: a few derived sets, computed once per zone.                    *)

View(rrs, apex) ==
    LET inz == {r \in rrs : IsSubdomain(r.o, apex)}
        owners == {r.o : r \in inz}
    IN  [rrs    |-> inz,
         apex   |-> apex,
         owners |-> owners,
         \* the nodes of the tree: every owner and every name between it and the apex
         \* (RFC 4592 section 2.2.2: empty non-terminals exist)
         exist  |-> UNION {UpTo(o, apex) : o \in owners} \cup {apex},
         \* RFC 1034 section 4.2.1: a cut is a node below the apex that owns NS records
         cuts   |-> {o \in owners : o # apex /\ \E r \in inz : r.o = o /\ r.t = "NS"},
         at     |-> [o \in owners |-> {r \in inz : r.o = o}]]

At(V, n)     == IF n \in V.owners THEN V.at[n] ELSE {}
TypesOf(rs)  == {r.t : r \in rs}
OfType(rs, t) == {r \in rs : r.t = t}

\* RFC 1034 4.3.2 step 3 matches down from the apex, so the first cut met is the one
\* nearest the apex; everything below it (further NS sets included) is not authoritative
\* data of this zone.
CutsAbove(V, n) == {c \in V.cuts : IsSubdomain(n, c)}
TopCut(V, n)    == CHOOSE c \in CutsAbove(V, n) : \A d \in CutsAbove(V, n) : Len(c) <= Len(d)

\* RFC 4592 section 3.3.1: source of synthesis = "*" directly below the closest encloser
SourceOfSynthesis(V, n) == WildcardAt(ClosestEncloser(n, V.exist))

\* RFC 1034 4.3.2 step 3c / RFC 4592 section 3.3.2: synthesized RRs are owned by QNAME
Synth(rs, qn) == {[o |-> qn, t |-> r.t, d |-> r.d] : r \in rs}

---------------------------------------------------------------------------
(* One pass of step 3 for one name (no CNAME restart).  Result kinds:        *)
(*   refer      3b: the name is at or below a cut                            *)
(*   referOrNs  3b with QNAME = the cut and QTYPE in {NS, ANY}: the NS set   *)
(*              is also "data matching QTYPE at the node"; both readings of  *)
(*              the property text are accepted                               *)
(*   cname      3a/3c: CNAME at the node (or at the source of synthesis)     *)
(*   data       3a/3c: RRset of QTYPE                                        *)
(*   any        QTYPE = ANY at a node with data                              *)
(*   nodata     node exists (possibly only as an empty non-terminal, or as   *)
(*              the source of synthesis) but has nothing of QTYPE            *)
(*   nxdomain   3c: no node, no source of synthesis                          *)
(* wild = the data came from the source of synthesis.                        *)

Res(k, rrs, target, cut, wild) == [k |-> k, rrs |-> rrs, target |-> target, cut |-> cut, wild |-> wild]

Resolve(V, qn, qt) ==
    LET cs == CutsAbove(V, qn) IN
    \* RFC 4035 3.1.4.1: DS at the cut itself belongs to the parent zone
    IF cs # {} /\ ~(qt = "DS" /\ TopCut(V, qn) = qn)
    THEN LET c == TopCut(V, qn) IN
         IF qn = c /\ qt \in {"NS", "ANY"} THEN Res("referOrNs", OfType(At(V, c), "NS"), <<>>, c, FALSE)
         ELSE Res("refer", {}, <<>>, c, FALSE)
    ELSE LET ex   == qn \in V.exist
             src  == IF ex THEN qn ELSE SourceOfSynthesis(V, qn)
             here == Synth(At(V, src), qn)
         IN  IF here = {}
             THEN \* nothing at the node: an empty non-terminal (qn or the source of synthesis
                  \* exists in the tree without data) is NODATA, anything else a name error
                  IF src \in V.exist THEN Res("nodata", {}, <<>>, <<>>, ~ex)
                  ELSE Res("nxdomain", {}, <<>>, <<>>, FALSE)
             ELSE IF qt = "ANY" THEN Res("any", here, <<>>, <<>>, ~ex)
             ELSE IF "CNAME" \in TypesOf(here) /\ qt # "CNAME"
                  THEN Res("cname", OfType(here, "CNAME"),
                           (CHOOSE r \in OfType(here, "CNAME") : TRUE).d, <<>>, ~ex)
             ELSE IF qt \in TypesOf(here) THEN Res("data", OfType(here, qt), <<>>, <<>>, ~ex)
             ELSE Res("nodata", {}, <<>>, <<>>, ~ex)

---------------------------------------------------------------------------
(* What a response must look like.  An expectation is a set of alternatives; *)
(* a response conforms if it conforms to one of them.  Alternative:          *)
(*   k    name of the case (reporting only)                                  *)
(*   rc   set of permitted RCODEs                                            *)
(*   aa   "y" | "n" | "*"                                                    *)
(*   an   sequence of RRsets (sets of RRs): the answer section must be       *)
(*        exactly the union of the first k of them for some k in min..Len    *)
(*        (sub = FALSE), or of some non-empty subset of them (sub = TRUE,    *)
(*        QTYPE=ANY).  Order of RRs is never significant.                    *)
(*   au   "soa": the zone's SOA is in the authority section;                 *)
(*        "ns" : the complete NS RRset of `cut` is there and no SOA;         *)
(*        "*"  : not constrained                                             *)
(*   dn   (DO on a signed zone) what makes a denial proof due: a set of       *)
(*        naturals; 0 = the answer is negative (NODATA / name error);        *)
(*        i >= 1 = RRset i of `an` is a wildcard expansion (its owner does   *)
(*        not exist), which counts if that RRset is part of the response     *)

Alt(k, rc, aa, an, min, sub, au, cut, dn) ==
    [k |-> k, rc |-> rc, aa |-> aa, an |-> an, min |-> min, sub |-> sub, au |-> au, cut |-> cut, dn |-> dn]

RRsetsOf(rs) == {OfType(rs, t) : t \in TypesOf(rs)}
Least(a, b)  == IF a <= b THEN a ELSE b

\* first pass ended without any CNAME having been followed
FinishDirect(r) ==
    LET w == IF r.wild THEN {1} ELSE {} IN
    CASE r.k = "data"      -> {Alt("data", {"NOERROR"}, "y", <<r.rrs>>, 1, FALSE, "*", <<>>, w)}
      [] r.k = "any"       -> {Alt("any", {"NOERROR"}, "y", SetToSeq(RRsetsOf(r.rrs)), 1, TRUE, "*", <<>>, w)}
      \* RFC 2308 2.2 / 3: NODATA is NOERROR with the SOA in the authority section
      [] r.k = "nodata"    -> {Alt("nodata", {"NOERROR"}, "y", <<>>, 0, FALSE, "soa", <<>>, {0})}
      \* RFC 1034 3c "authoritative name error", RFC 2308 2.1 / 3: SOA in the authority section
      [] r.k = "nxdomain"  -> {Alt("nxdomain", {"NXDOMAIN"}, "y", <<>>, 0, FALSE, "soa", <<>>, {0})}
      \* RFC 1034 3b: NS RRs of the cut in the authority section; the server is not an
      \* authority for the name (RFC 1035 4.1.1), so AA is clear
      [] r.k = "refer"     -> {Alt("refer", {"NOERROR"}, "n", <<>>, 0, FALSE, "ns", r.cut, {})}
      [] r.k = "referOrNs" -> {Alt("refer", {"NOERROR"}, "n", <<>>, 0, FALSE, "ns", r.cut, {}),
                               Alt("cutns", {"NOERROR"}, "*", <<r.rrs>>, 1, FALSE, "*", <<>>, {})}

\* the pass for the last name of a chain ended; `acc` (non-empty) holds the CNAME RRsets.
\* RFC 1034 3c: "if the name is original, set an authoritative name error, otherwise just exit";
\* RFC 2308 2.1 / RFC 6604 section 3 give NXDOMAIN for a chain that ends at a missing name:
\* both are accepted.  Nothing is required of the authority section after a chain, and no
\* denial for the LAST name either: the response is a positive answer for the alias, and a
\* validator continues at the canonical name.  Expansions on the way remain "wildcard answers".
FinishChain(r, acc, dn) ==
    LET n == Len(acc) IN
    CASE r.k = "data"      -> {Alt("chain-data", {"NOERROR"}, "y", Append(acc, r.rrs), Least(n + 1, MinChase), FALSE, "*", <<>>,
                                   dn \cup (IF r.wild THEN {n + 1} ELSE {}))}
      [] r.k = "nodata"    -> {Alt("chain-nodata", {"NOERROR"}, "y", acc, Least(n, MinChase), FALSE, "*", <<>>, dn)}
      [] r.k = "nxdomain"  -> {Alt("chain-nx", {"NOERROR", "NXDOMAIN"}, "y", acc, Least(n, MinChase), FALSE, "*", <<>>, dn)}
      [] r.k = "refer"     -> {Alt("chain-refer", {"NOERROR"}, "y", acc, Least(n, MinChase), FALSE, "*", <<>>, dn)}
      [] r.k = "referOrNs" -> {Alt("chain-refer", {"NOERROR"}, "y", acc, Least(n, MinChase), FALSE, "*", <<>>, dn),
                               Alt("chain-cutns", {"NOERROR"}, "y", Append(acc, r.rrs), Least(n + 1, MinChase), FALSE, "*", <<>>, dn)}
      \* chain left the zone, or came back to a name already visited
      [] r.k \in {"out", "loop"} -> {Alt(IF r.k = "out" THEN "chain-out" ELSE "chain-loop", {"NOERROR"}, "y", acc, Least(n, MinChase), FALSE, "*", <<>>, dn)}

\* RFC 1034 3a: "copy the CNAME RR into the answer section, change QNAME to the canonical
\* name and go back to step 1" -- inside this zone; a target outside the zone ends the chase.
RECURSIVE Chase(_, _, _, _, _, _)
Chase(V, n, qt, seen, acc, dn) ==
    LET r == Resolve(V, n, qt) IN
    IF r.k = "cname"
    THEN LET acc2 == Append(acc, r.rrs)
             dn2  == dn \cup (IF r.wild THEN {Len(acc2)} ELSE {})
         IN  IF ~IsSubdomain(r.target, V.apex) THEN FinishChain(Res("out", {}, <<>>, <<>>, FALSE), acc2, dn2)
             ELSE IF r.target \in seen \cup {n} THEN FinishChain(Res("loop", {}, <<>>, <<>>, FALSE), acc2, dn2)
             ELSE Chase(V, r.target, qt, seen \cup {n}, acc2, dn2)
    ELSE IF acc = <<>> THEN FinishDirect(r) ELSE FinishChain(r, acc, dn)

\* RFC 1034 4.3.2 step 2: no zone of this server is an ancestor of QNAME.  What a server
\* without recursion and without cache says then is not part of the algorithm (C11 owns
\* REFUSED); here only "no answer, not authoritative, no name error" is required.
NotAuth == {Alt("notauth", {"REFUSED", "NOERROR", "SERVFAIL"}, "n", <<>>, 0, FALSE, "*", <<>>, {})}

\* RFC 1034 3a: QTYPE=ANY matches CNAME, so an ANY query is not restarted at the canonical
\* name.  A server that nevertheless follows the CNAME as it would for a concrete type only
\* adds correct data; the property does not speak about it, so both are accepted.
FollowTypes == {"A", "AAAA", "MX", "TXT", "NS", "SOA", "DS"}

Answer(V, qn, qt) ==
    IF ~IsSubdomain(qn, V.apex) THEN NotAuth
    ELSE LET base == Chase(V, qn, qt, {}, <<>>, {})
             r0   == Resolve(V, qn, qt)
         IN  IF qt = "ANY" /\ r0.k = "any" /\ "CNAME" \in TypesOf(r0.rrs)
             THEN base \cup UNION {Chase(V, qn, ty, {}, <<>>, {}) : ty \in FollowTypes}
             ELSE base

---------------------------------------------------------------------------
(* Conformance of an observed response to an expectation.                    *)
(* resp = [rcode, aa, an, au] with an / au sequences of RRs [o, t, d]; when  *)
(* the query had DO set, RRSIG and NSEC/NSEC3 records are present as RRs of  *)
(* those types (see Covered below) and are ignored by the section comparison.*)

Range_(s) == {s[i] : i \in 1..Len(s)}
DnssecTypes == {"RRSIG", "NSEC", "NSEC3"}
Plain(sec) == {[o |-> r.o, t |-> r.t, d |-> r.d] : r \in {x \in Range_(sec) : x.t \notin DnssecTypes}}

UnionOfFirst(an, k) == UNION {an[i] : i \in 1..k}

AnswerOk(a, got) ==
    IF a.sub
    THEN \E S \in SUBSET Range_(a.an) : S # {} /\ got = UNION S
    ELSE \E k \in a.min..Len(a.an) : got = UnionOfFirst(a.an, k)

AuthorityOk(V, a, got) ==
    CASE a.au = "soa" -> \E r \in got : r.t = "SOA" /\ r.o = V.apex
      [] a.au = "ns"  -> /\ OfType(At(V, a.cut), "NS") \subseteq got
                         /\ ~\E r \in got : r.t = "SOA"
      [] OTHER        -> TRUE

ConformsTo(V, a, resp) ==
    /\ resp.rcode \in a.rc
    /\ a.aa = "*" \/ (a.aa = "y") = resp.aa
    /\ AnswerOk(a, Plain(resp.an))
    /\ AuthorityOk(V, a, Plain(resp.au))

Conforms(V, exp, resp) == \E a \in exp : ConformsTo(V, a, resp)

---------------------------------------------------------------------------
(* DO set, zone signed (RFC 4035 section 3.1): every authoritative RRset in  *)
(* the answer and authority sections is accompanied by an RRSIG covering its *)
(* type at the same owner (delegation NS sets and glue are not signed), and  *)
(* negative / wildcard answers carry NSEC or NSEC3 records, themselves       *)
(* signed.  A signature record is projected as [o, t |-> "RRSIG", d |-> the  *)
(* number of the covered type in a one-element sequence].                    *)

TypeCode(t) ==
    CASE t = "A" -> 1 [] t = "NS" -> 2 [] t = "CNAME" -> 5 [] t = "SOA" -> 6 [] t = "MX" -> 15 [] t = "TXT" -> 16
      [] t = "AAAA" -> 28 [] t = "DS" -> 43 [] t = "NSEC" -> 47 [] t = "DNSKEY" -> 48 [] t = "NSEC3" -> 50
      [] OTHER -> 0
Covered(sec, o, t) == \E r \in Range_(sec) : r.t = "RRSIG" /\ r.o = o /\ r.d = <<TypeCode(t)>>

\* RRsets present in a section, as (owner, type) pairs
SetsIn(sec) == {<<r.o, r.t>> : r \in {x \in Range_(sec) : x.t # "RRSIG"}}

\* below or at a cut (other than DS/NSEC at the cut) the data is not authoritative: unsigned
NotSigned(V, o, t) == CutsAbove(V, o) # {} /\ ~(o \in V.cuts /\ t \in {"DS", "NSEC"} /\ TopCut(V, o) = o)

SigsOk(V, resp) ==
    /\ \A p \in SetsIn(resp.an) : NotSigned(V, p[1], p[2]) \/ Covered(resp.an, p[1], p[2])
    /\ \A p \in SetsIn(resp.au) : NotSigned(V, p[1], p[2]) \/ Covered(resp.au, p[1], p[2])

DenialPresent(resp) == \E r \in Range_(resp.au) : r.t \in {"NSEC", "NSEC3"}

\* whether a denial is due depends on the alternative the response matched and, for a chain,
\* on how much of it the response contains
NeedAt(a, k) == \E i \in a.dn : i <= k
DenialOkFor(a, resp) ==
    IF a.sub THEN a.dn # {} => DenialPresent(resp)
    ELSE \E k \in a.min..Len(a.an) :
            /\ Plain(resp.an) = UnionOfFirst(a.an, k)
            /\ NeedAt(a, k) => DenialPresent(resp)
DenialOk(V, exp, resp) == \E a \in exp : ConformsTo(V, a, resp) /\ DenialOkFor(a, resp)

ConformsSigned(V, exp, resp) == Conforms(V, exp, resp) /\ SigsOk(V, resp) /\ DenialOk(V, exp, resp)
=============================================================================
