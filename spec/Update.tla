------------------------------- MODULE Update -------------------------------
(* Property C12: dynamic update applies RFC 2136 semantics and keeps the      *)
(* zone well-formed.                                                          *)
(*                                                                            *)
(* The machine processes one UPDATE message at a time in the steps RFC 2136   *)
(* section 3 lays down, one action per step:                                  *)
(*   Begin(m)        a message arrives (3.1 is the caller's business)         *)
(*   CheckPrereq     3.2.1 / 3.2.2 / form tests of prerequisite i, in order   *)
(*   PrereqValues    3.2.3 RRset comparison once all prerequisites are read   *)
(*   Prescan         3.4.1 test of update RR i, in order                      *)
(*   ApplyRR         3.4.2 effect of update RR i on the zone, in order        *)
(*   Finish          3.6 serial, 3.8 reply NOERROR                            *)
(*   Reject          3.8 reply with the RCODE found; zone untouched           *)
(* The requirement operators C12_* speak about the observable state only      *)
(* (zone RR set, serial, reply) and compare the machine against the           *)
(* declarative reading in UpdateOps (Outcomes) -- the machine is sequential   *)
(* with early exit as in the RFC's pseudocode, Outcomes is set-based.         *)
EXTENDS Naturals, Sequences, FiniteSets, UpdateOps

CONSTANTS Apex,      \* name of the zone
          InitZones, \* the zone RR sets the history may start from (well-formed)
          InitSers,  \* the serials it may start from
          Msgs,      \* the UPDATE messages the environment may send
          MaxMsgs    \* bound on the history length (model checking only)

VARIABLES rrs, ser,  \* the zone: RR set and SOA serial
          pc,        \* "idle" | "pre" | "scan" | "apply" | "fin" | "rej"
          msg, i,    \* message being processed, index into its current section
          snap,      \* zone at Begin (= as left by the earlier messages)
          touched,   \* some update RR of this message changed the zone
          reply,     \* RCODE of the last reply ("none" before the first)
          n          \* messages answered so far

vars == <<rrs, ser, pc, msg, i, snap, touched, reply, n>>

Cur == [rrs |-> rrs, ser |-> ser]
NoMsg == [pre |-> <<>>, upd |-> <<>>]

Init ==
    /\ rrs \in InitZones /\ ser \in InitSers /\ pc = "idle" /\ msg = NoMsg /\ i = 0
    /\ snap = [rrs |-> rrs, ser |-> ser] /\ touched = FALSE /\ reply = "none" /\ n = 0

Begin ==
    /\ pc = "idle" /\ n < MaxMsgs
    /\ \E m \in Msgs : msg' = m
    /\ pc' = "pre" /\ i' = 1 /\ snap' = Cur /\ touched' = FALSE
    /\ UNCHANGED <<rrs, ser, reply, n>>

\* the tests of 3.2.5 on prerequisite i in the pseudocode's order: TTL, zone, class-specific
PrereqCode(rr) ==
    IF rr.ttl # 0 THEN "FORMERR"
    ELSE IF ~InZone(rr.o, Apex) THEN "NOTZONE"
    ELSE IF rr.c \in {"ANY", "NONE"} THEN
        IF rr.rd # 0 THEN "FORMERR"
        ELSE IF PreZoneErrors(Cur, rr, Apex) # {} THEN CHOOSE c \in PreZoneErrors(Cur, rr, Apex) : TRUE
        ELSE "ok"
    ELSE IF rr.c = ZCLASS THEN "ok"          \* temp<rr.name, rr.type> += rr
    ELSE "FORMERR"

CheckPrereq ==
    /\ pc = "pre" /\ i <= Len(msg.pre)
    /\ LET c == PrereqCode(msg.pre[i]) IN
         IF c = "ok" THEN i' = i + 1 /\ UNCHANGED <<pc, reply>>
         ELSE pc' = "rej" /\ reply' = c /\ i' = i
    /\ UNCHANGED <<rrs, ser, msg, snap, touched, n>>

PrereqValues ==
    /\ pc = "pre" /\ i > Len(msg.pre)
    /\ IF PreValueMismatch(Cur, msg.pre, Apex) # {}
       THEN pc' = "rej" /\ reply' = "NXRRSET" /\ i' = i
       ELSE pc' = "scan" /\ i' = 1 /\ reply' = reply
    /\ UNCHANGED <<rrs, ser, msg, snap, touched, n>>

Prescan ==
    /\ pc = "scan"
    /\ IF i > Len(msg.upd) THEN pc' = "apply" /\ i' = 1 /\ reply' = reply
       ELSE IF ScanErrors(msg.upd[i], Apex) # {}
            THEN /\ pc' = "rej" /\ i' = i
                 /\ reply' = (IF "NOTZONE" \in ScanErrors(msg.upd[i], Apex) THEN "NOTZONE" ELSE "FORMERR")
            ELSE pc' = pc /\ i' = i + 1 /\ reply' = reply
    /\ UNCHANGED <<rrs, ser, msg, snap, touched, n>>

\* a server that does not take a zone-class RR without RDATA (UpdateOps!EmptyAdd): FORMERR, and
\* this has to happen here, before anything is applied
PrescanEmptyRdata ==
    /\ pc = "scan" /\ i <= Len(msg.upd)
    /\ ScanErrors(msg.upd[i], Apex) = {} /\ EmptyAdd(msg.upd[i])
    /\ pc' = "rej" /\ reply' = "FORMERR"
    /\ UNCHANGED <<rrs, ser, msg, i, snap, touched, n>>

ApplyRR ==
    /\ pc = "apply" /\ i <= Len(msg.upd)
    /\ \E nx \in AllowedRR(Cur, msg.upd[i], Apex) :
         /\ rrs' = nx.rrs /\ ser' = nx.ser
         /\ touched' = (touched \/ nx # Cur)
    /\ i' = i + 1
    /\ UNCHANGED <<pc, msg, snap, reply, n>>

\* 3.6: "if any Update RR caused a zone change ... and the SOA was not itself updated, the
\* server increments SOA.SERIAL".  The machine increments whenever a zone change happened and
\* otherwise leaves the serial alone.
Finish ==
    /\ pc = "apply" /\ i > Len(msg.upd)
    /\ ser' = IF touched /\ ser = snap.ser THEN SerialInc(ser) ELSE ser
    /\ reply' = "NOERROR" /\ pc' = "fin"
    /\ UNCHANGED <<rrs, msg, i, snap, touched, n>>

\* the reply leaves; the next message may come
Deliver ==
    /\ pc \in {"fin", "rej"}
    /\ pc' = "idle" /\ n' = n + 1
    /\ UNCHANGED <<rrs, ser, msg, i, snap, touched, reply>>

Next == Begin \/ CheckPrereq \/ PrereqValues \/ Prescan \/ PrescanEmptyRdata \/ ApplyRR \/ Finish \/ Deliver
Spec == Init /\ [][Next]_vars

-----------------------------------------------------------------------------
(* Requirements of C12, on observable state                                  *)

Answered == pc \in {"fin", "rej"}

\* "a message whose prerequisites or prescan fail changes nothing"
C12_AllOrNothing == (pc = "rej" => Cur = snap) /\ (pc \in {"pre", "scan"} => Cur = snap)

\* "prerequisites are judged against the zone as left by the earlier messages" and "an accepted
\* message leaves exactly the RRset contents RFC 2136 section 3.4.2 prescribes": the answered
\* message realises one of the outcomes the declarative reading allows from `snap`
C12_Contents == Answered => \E o \in Outcomes(snap, msg, Apex) : Realises(snap, o, reply, rrs, ser)
C12_PrereqOnCurrentZone ==
    Answered => (reply \in PrereqErrors(snap, msg.pre, Apex) \/ PrereqErrors(snap, msg.pre, Apex) = {}
                 \/ reply \in PrescanErrors(msg.upd, Apex))

\* "After every message the zone has exactly one SOA and at least one apex NS, no name holds a
\* CNAME together with other data" -- required to hold after every single update RR as well
C12_OneSOA     == OneSOA(rrs, Apex)
C12_ApexNS     == ApexNS(rrs, Apex)
C12_CnameAlone == CnameAlone(rrs)

\* "the SOA serial has strictly advanced (RFC 1982) if and only if the content changed"
C12_SerialIffChanged ==
    Answered => /\ (rrs # snap.rrs => SerialGT(ser, snap.ser))
                /\ (SerialGT(ser, snap.ser) => touched)
                /\ (ser # snap.ser => SerialGT(ser, snap.ser))

\* the two formulations of 3.4.2 agree wherever the RFC is unambiguous
C12_PseudoProseAgree ==
    (pc = "apply" /\ i <= Len(msg.upd)) =>
        (PseudoRR(Cur, msg.upd[i], Apex) = ProseRR(Cur, msg.upd[i], Apex) \/ RfcAmbiguous(Cur, msg.upd[i], Apex))

TypeOK ==
    /\ IsSerial(ser) /\ pc \in {"idle", "pre", "scan", "apply", "fin", "rej"}
    /\ reply \in {"none", "NOERROR", "FORMERR", "NOTZONE", "NXDOMAIN", "YXDOMAIN", "NXRRSET", "YXRRSET"}
    /\ n \in 0..MaxMsgs
=============================================================================
