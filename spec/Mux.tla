-------------------------------- MODULE Mux --------------------------------
(***************************************************************************)
(* C16, stream half -- requests multiplexed over one stream connection     *)
(* (crates/net/src/xfer/dns_multiplexer.rs behind DnsRequestSender).       *)
(*                                                                         *)
(*  "On a multiplexed stream connection each response reaches the pending  *)
(*   request with the same ID and no other, in-flight IDs are pairwise     *)
(*   distinct, unknown IDs are dropped, and a closed connection fails      *)
(*   every pending request."                                               *)
(*                                                                         *)
(* The USER sends and cancels requests; the PEER (or an attacker on the    *)
(* path) makes responses with arbitrary IDs arrive in any order,           *)
(* duplicated or never, sends undecodable messages, or closes; TIME makes  *)
(* pending requests expire.  Every arriving response gets a fresh `tag`    *)
(* (its content), so that the requirements can say which response went     *)
(* where.                                                                  *)
(*                                                                         *)
(* Where the property is silent the machine is nondeterministic:           *)
(*  - a request that has been handed at least one response may be regarded *)
(*    as complete at any time (its response stream ends, action Complete); *)
(*    until then it is pending and every response with its ID reaches it   *)
(*    (a request may have a stream of responses, e.g. AXFR);               *)
(*  - a request sent while Cap requests are in flight may be refused;      *)
(*  - any set of pending requests may expire at any time.                  *)
(***************************************************************************)
EXTENDS Naturals, Sequences, FiniteSets

CONSTANTS Reqs,     \* request names (the user's point of view), e.g. 1..3
          Ids,      \* message IDs available on the wire (small, so that IDs get reused)
          Cap,      \* in-flight limit above which a send may be refused
          MaxTag    \* bound on the number of arrivals

VARIABLES
    phase,    \* phase[r]: "new" | "pending" | "done" | "cancelled" | "failed" | "refused"
    wire,     \* wire[r]: the ID request r carried on the wire (0 before it is sent)
    inbox,    \* inbox[r]: tags of the responses handed to r's receiver, in order
    conn,     \* "open" | "closed"
    ntag,     \* arrivals so far; the next arrival gets tag ntag + 1
    rid,      \* rid[k]: the ID that arrival k carried (0 = undecodable)
    last      \* observation of the last step: [kind, to]; kind "none" | "known" | "dup" |
              \* "unknown" | "garbage"; to = receiving request or 0

vars == <<phase, wire, inbox, conn, ntag, rid, last>>

Pending == {r \in Reqs : phase[r] = "pending"}
InUse   == {wire[r] : r \in Pending}
Quiet   == [kind |-> "none", to |-> 0]

TypeOK ==
    /\ phase \in [Reqs -> {"new", "pending", "done", "cancelled", "failed", "refused"}]
    /\ wire \in [Reqs -> Ids \cup {0}]
    /\ \A r \in Reqs : \A k \in 1..Len(inbox[r]) : inbox[r][k] \in 1..ntag
    /\ conn \in {"open", "closed"}
    /\ ntag \in 0..MaxTag /\ Len(rid) = ntag
    /\ last.kind \in {"none", "known", "dup", "unknown", "garbage"} /\ last.to \in Reqs \cup {0}

Init ==
    /\ phase = [r \in Reqs |-> "new"] /\ wire = [r \in Reqs |-> 0] /\ inbox = [r \in Reqs |-> <<>>]
    /\ conn = "open" /\ ntag = 0 /\ rid = <<>> /\ last = Quiet

\* the user sends request r; it goes on the wire with ID i
Send(r, i) ==
    /\ conn = "open" /\ phase[r] = "new"
    /\ i \in Ids \ InUse                        \* a fresh ID: not that of any in-flight request
    /\ phase' = [phase EXCEPT ![r] = "pending"] /\ wire' = [wire EXCEPT ![r] = i]
    /\ last' = Quiet
    /\ UNCHANGED <<inbox, conn, ntag, rid>>

\* ... or it is refused because too many are in flight (admission control is not part of C16)
SendRefused(r) ==
    /\ conn = "open" /\ phase[r] = "new" /\ Cardinality(Pending) >= Cap
    /\ phase' = [phase EXCEPT ![r] = "refused"]
    /\ last' = Quiet
    /\ UNCHANGED <<wire, inbox, conn, ntag, rid>>

Arrive(i, kind, to) ==
    /\ conn = "open" /\ ntag < MaxTag
    /\ ntag' = ntag + 1 /\ rid' = Append(rid, i)
    /\ last' = [kind |-> kind, to |-> to]

\* the first response carrying the ID of pending request r arrives: it reaches r
DeliverFirst(r) ==
    /\ r \in Pending /\ inbox[r] = <<>>
    /\ Arrive(wire[r], "known", r)
    /\ inbox' = [inbox EXCEPT ![r] = Append(@, ntag + 1)]
    /\ UNCHANGED <<phase, wire, conn>>

\* a further response with r's ID arrives while r is still pending: handed to r as well ...
DeliverDup(r) ==
    /\ r \in Pending /\ inbox[r] # <<>>
    /\ Arrive(wire[r], "dup", r)
    /\ inbox' = [inbox EXCEPT ![r] = Append(@, ntag + 1)]
    /\ UNCHANGED <<phase, wire, conn>>

\* the implementation regards r, which has been answered, as complete: its response stream ends
\* (a one-shot implementation does this together with the first response)
Complete(r) ==
    /\ r \in Pending /\ inbox[r] # <<>>
    /\ phase' = [phase EXCEPT ![r] = "done"]
    /\ last' = Quiet
    /\ UNCHANGED <<wire, inbox, conn, ntag, rid>>

\* a response whose ID belongs to no in-flight request (never used, or of a request that is
\* complete, was cancelled or has failed): dropped
DeliverUnknown(i) ==
    /\ i \in Ids \ InUse
    /\ Arrive(i, "unknown", 0)
    /\ UNCHANGED <<phase, wire, inbox, conn>>

\* an undecodable message: dropped
DeliverGarbage ==
    /\ Arrive(0, "garbage", 0)
    /\ UNCHANGED <<phase, wire, inbox, conn>>

\* ... or the implementation gives the connection up (the property speaks of unknown IDs only;
\* treating an undecodable message as a fatal protocol error is not forbidden), which then is a
\* close like any other
GarbageCloses ==
    /\ Arrive(0, "garbage", 0)
    /\ conn' = "closed"
    /\ phase' = [r \in Reqs |-> IF r \in Pending THEN "failed" ELSE phase[r]]
    /\ UNCHANGED <<wire, inbox>>

\* the user drops r's receiver
Cancel(r) ==
    /\ r \in Pending
    /\ phase' = [phase EXCEPT ![r] = "cancelled"]
    /\ last' = Quiet
    /\ UNCHANGED <<wire, inbox, conn, ntag, rid>>

\* the requests in S run out of time
Expire(S) ==
    /\ S # {} /\ S \subseteq Pending
    /\ phase' = [r \in Reqs |-> IF r \in S THEN "failed" ELSE phase[r]]
    /\ last' = Quiet
    /\ UNCHANGED <<wire, inbox, conn, ntag, rid>>

\* the connection ends (EOF or error): every pending request fails
Close ==
    /\ conn = "open"
    /\ conn' = "closed"
    /\ phase' = [r \in Reqs |-> IF r \in Pending THEN "failed" ELSE phase[r]]
    /\ last' = Quiet
    /\ UNCHANGED <<wire, inbox, ntag, rid>>

Next ==
    \/ \E r \in Reqs, i \in Ids : Send(r, i)
    \/ \E r \in Reqs : SendRefused(r)
    \/ \E r \in Reqs : DeliverFirst(r)
    \/ \E r \in Reqs : DeliverDup(r)
    \/ \E r \in Reqs : Complete(r)
    \/ \E i \in Ids : DeliverUnknown(i)
    \/ DeliverGarbage
    \/ GarbageCloses
    \/ \E r \in Reqs : Cancel(r)
    \/ \E S \in SUBSET Reqs : Expire(S)
    \/ Close

Spec == Init /\ [][Next]_vars

(***************************************************************************)
(* REQUIREMENTS (observable: IDs on the wire, what each receiver got)      *)
(***************************************************************************)
\* "in-flight IDs are pairwise distinct"
C16_DistinctIds == \A r, q \in Pending : r # q => wire[r] # wire[q]

\* "each response reaches the pending request with the same ID ..."
\* whatever receiver r was handed carried r's ID
C16_RoutedById == \A r \in Reqs : \A k \in 1..Len(inbox[r]) : rid[inbox[r][k]] = wire[r]
\* ... and every response that arrives with the ID of a pending request does reach it
C16_Reaches ==
    [][\A r \in Reqs : (/\ r \in Pending /\ ntag' = ntag + 1
                        /\ rid'[ntag'] = wire[r]) => inbox'[r] = Append(inbox[r], ntag')]_vars

\* "... and no other": a response is handed to at most one receiver, at most once
C16_NoOther ==
    \A t \in 1..ntag : Cardinality({<<r, k>> \in Reqs \X (1..MaxTag) :
                                        k <= Len(inbox[r]) /\ inbox[r][k] = t}) <= 1

\* "unknown IDs are dropped": an arrival whose ID no in-flight request has (or that cannot be
\* decoded) changes nothing any user can see -- unless the connection is closed over it
C16_UnknownDropped ==
    [][(ntag' = ntag + 1 /\ rid'[ntag'] \notin InUse /\ conn' = "open") => (inbox' = inbox /\ phase' = phase)]_vars

\* "a closed connection fails every pending request"
C16_CloseFailsAll == conn = "closed" => Pending = {}
C16_CloseFailsAllStep ==
    [][(conn = "open" /\ conn' = "closed") => \A r \in Pending : phase'[r] = "failed"]_vars

\* nothing is handed to a receiver that is not pending, and no request comes back to life
C16_OnlyPendingReceive ==
    [][\A r \in Reqs : /\ inbox'[r] # inbox[r] => r \in Pending
                       /\ phase[r] \in {"done", "cancelled", "failed", "refused"} => phase'[r] = phase[r]]_vars
=============================================================================
