\* the rule the code follows today (deadline looked at only between rounds): C18_Deadline fails
SPECIFICATION Spec
CONSTANTS
  Configs <- MC_DeadlineWitness
  NCallers = 1
  Gaps <- MC_Gaps
  Backoff0 = 20
  BackoffCap = 300
  DeadlineRule = "asis"
  UdpRule = "required"
INVARIANTS C18_Deadline
CHECK_DEADLOCK FALSE
