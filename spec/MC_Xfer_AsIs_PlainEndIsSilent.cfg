\* AS-IS: a plain end of the stream below ends the transfer stream without an error.
\* Expected result: X02_ClientVerdict is violated (design-level counterexample of a known finding).
SPECIFICATION Spec
CONSTANTS
  Rest <- MC_Rest
  Serial <- MC_Serial
  Caps <- MC_OneCap
  Policies <- MC_OnePolicy
  Reqs <- MC_AxfrOnly
  Sources <- MC_ScriptOnly
  ScriptMsgs <- MC_ScriptMsgs
  MaxScript = 3
  Flaws <- MC_PlainEndIsSilent
INVARIANTS X02_ClientVerdict
CHECK_DEADLOCK FALSE
