------------------------------- MODULE MC_Tsig -------------------------------
EXTENDS Tsig
MC_Dts == {0 - 65536, 0 - 301, 0 - 300, 0 - 299, 0, 299, 300, 301, 65636}
MC_Tampers == {"none", "msgId", "appended", "flags", "count", "zone", "prereq", "update", "tsigTime",
               "tsigFudge", "tsigOrigId", "tsigError", "tsigOther", "macBit"}
=============================================================================
