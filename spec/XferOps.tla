------------------------------- MODULE XferOps -------------------------------
(* X02 -- zone transfer (AXFR, RFC 5936; IXFR, RFC 1995) message sequencing.   *)
(* Constant-free requirement operators shared by the machine (Xfer), the case  *)
(* generator (Gen_Xfer) and the trace monitor (Trace_Xfer).                    *)
(*                                                                             *)
(* A transfer answer is a SEQUENCE OF MESSAGES.  A message is a record         *)
(*   [id, qr, op, rc, aa, tc, q, an, ns, ar]                                   *)
(* with q in {"echo", "empty", "other"} (the question section compared with    *)
(* the request's) and an / ns / ar the sequences of resource records of the    *)
(* answer / authority / additional sections (OPT and TSIG left out).  Records  *)
(* are opaque values on the server side (compared by equality only) and pairs  *)
(* <<"soa", serial>> / <<"rr", k>> in the scripts fed to the client.           *)
(*                                                                             *)
(* RFC 5936 2.2:  "the first message MUST begin with the SOA resource record   *)
(* of the zone, and the last message MUST conclude with the same SOA resource  *)
(* record.  Intermediate messages MUST NOT contain the SOA resource record."   *)
(* 2.2.1: ID copied, QR 1, OPCODE 0, AA 1 and RCODE 0 in the absence of an     *)
(* error, TC 0, QDCOUNT 1 in the first message and 0 or 1 afterwards (1 if     *)
(* the RCODE is an error), NSCOUNT 0.  2.2 (end): after the leading SOA the order *)
(* and grouping of the RRs is free, each RR SHOULD be transmitted only once.   *)
(* 3.1: every RR of the zone appears.  4.2: AXFR over UDP is not defined.      *)
(* RFC 1995 2/4: an IXFR query whose serial is the server's or newer "is       *)
(* replied to with a single SOA record of the server's current version"; "if   *)
(* incremental zone transfer is not available, the entire zone is returned.    *)
(* The first and the last RR of the response is the SOA record of the zone."   *)
EXTENDS Naturals, Sequences, FiniteSets

Range(s) == {s[i] : i \in DOMAIN s}

RECURSIVE FlatAn(_)
FlatAn(msgs) == IF msgs = <<>> THEN <<>> ELSE Head(msgs).an \o FlatAn(Tail(msgs))

\* the records at positions 2 .. n-1
Inner(recs) == IF Len(recs) <= 2 THEN <<>> ELSE SubSeq(recs, 2, Len(recs) - 1)

Least(S) == CHOOSE x \in S : \A y \in S : x <= y

(* ========================================================================= *)
(* Server side.  zone = [soa |-> r, rest |-> set, sigs |-> set]: the SOA RR,  *)
(* the other RRs stored in the zone (delegations, glue, occluded names and    *)
(* DNSSEC records included) and, separately, the RRSIG RRs.                   *)
(* req = [proto, qtype, id, have] with have in {"none","older","same",        *)
(* "newer"} (the IXFR client's serial relative to the zone's).                *)
(* ========================================================================= *)

(* What the server owes for a request.  target = 0: the query name is not the *)
(* apex of a zone this server serves (nothing may be transferred: "nothing    *)
(* from another zone", RFC 5936 2.2.1 NotAuth); the policy is the zone's       *)
(* AxfrPolicy and every request here is unsigned, so "signed" denies too.      *)
Duty(req, policy, target) ==
    IF target = 0 THEN "not-apex"
    ELSE IF req.qtype = "AXFR" THEN
        IF req.proto = "udp" THEN "udp"
        ELSE IF policy = "all" THEN "transfer" ELSE "refused"
    ELSE IF policy # "all" THEN "ixfr-denied"
    ELSE IF req.have = "older" THEN "ixfr-older" ELSE "ixfr-current"

Refused == 5

(* --- requirements on a sequence of messages, each with a name -------------- *)
(* The names are what the monitor reports; ServerReqs(duty) lists the ones     *)
(* that apply.  Holds(name, ...) is the meaning.                               *)

HeaderOk(m, req) == m.qr /\ m.id = req.id /\ m.op = 0

Holds(name, msgs, zone, req, foreign) ==
    LET flat == FlatAn(msgs)
        n    == Len(flat)
        mid  == Inner(flat)
    IN CASE name = "replies"        -> Len(msgs) >= 1
         [] name = "one-message"    -> Len(msgs) = 1
         [] name = "at-most-one"    -> Len(msgs) <= 1
         [] name = "header"         -> \A i \in DOMAIN msgs : HeaderOk(msgs[i], req)
         [] name = "noerror"        -> \A i \in DOMAIN msgs : msgs[i].rc = 0
         [] name = "aa"             -> \A i \in DOMAIN msgs : msgs[i].aa
         [] name = "tc-clear"       -> \A i \in DOMAIN msgs : ~msgs[i].tc
         \* the first message copies the question; later ones MAY (echo or empty)
         [] name = "question"       -> /\ Len(msgs) >= 1 => msgs[1].q = "echo"
                                       /\ \A i \in DOMAIN msgs : msgs[i].q \in {"echo", "empty"}
         [] name = "question-echo"  -> \A i \in DOMAIN msgs : msgs[i].q = "echo"
         [] name = "authority-empty"  -> \A i \in DOMAIN msgs : msgs[i].ns = <<>>
         [] name = "additional-empty" -> \A i \in DOMAIN msgs : msgs[i].ar = <<>>
         [] name = "starts-with-soa"  -> n >= 1 /\ flat[1] = zone.soa
         [] name = "ends-with-soa"    -> n >= 2 /\ flat[n] = zone.soa
         [] name = "no-soa-inside"    -> \A i \in DOMAIN mid : mid[i] # zone.soa
         \* nothing but this zone's records, in particular nothing of another zone
         [] name = "only-zone-records" -> Range(flat) \subseteq ({zone.soa} \cup zone.rest \cup zone.sigs)
         [] name = "nothing-foreign"   -> Range(flat) \cap foreign = {}
         [] name = "all-records"    -> zone.rest \subseteq Range(flat)
         [] name = "all-rrsigs"     -> zone.sigs \subseteq Range(flat)
         \* RFC 5936 2.2: each RR SHOULD be transmitted only once
         [] name = "once"           -> Cardinality(Range(mid)) = Len(mid)
         [] name = "refused-rcode"  -> \A i \in DOMAIN msgs : msgs[i].rc = Refused
         [] name = "error-rcode"    -> \A i \in DOMAIN msgs : msgs[i].rc # 0
         [] name = "no-zone-data"   -> flat = <<>>
         \* at most the SOA (which any client can ask for) and nothing else of the zone
         [] name = "at-most-soa"    -> Range(flat) \subseteq {zone.soa}
         [] name = "single-soa"     -> flat = <<zone.soa>>

TransferReqs == <<"replies", "header", "noerror", "aa", "tc-clear", "question", "authority-empty", "additional-empty",
                  "starts-with-soa", "ends-with-soa", "no-soa-inside", "only-zone-records", "nothing-foreign",
                  "all-records", "all-rrsigs", "once">>
RefusalReqs  == <<"one-message", "header", "refused-rcode", "question-echo", "no-zone-data">>
NoDataReqs   == <<"at-most-one", "header", "no-zone-data">>
SingleSoaReqs == <<"one-message", "header", "noerror", "aa", "tc-clear", "question-echo", "authority-empty", "single-soa">>
ErrorReqs    == <<"one-message", "header", "error-rcode", "question-echo", "no-zone-data">>
DeniedReqs   == <<"at-most-one", "header", "at-most-soa", "nothing-foreign">>

FailedOf(reqs, msgs, zone, req, foreign) ==
    {reqs[i] : i \in {j \in DOMAIN reqs : ~Holds(reqs[j], msgs, zone, req, foreign)}}

(* WellFormedAxfr: the whole of RFC 5936 2.2 / 3 for one answer *)
WellFormedAxfr(msgs, zone, req, foreign) == FailedOf(TransferReqs, msgs, zone, req, foreign) = {}

(* The alternatives a duty allows; an answer conforms if one alternative has  *)
(* no failed requirement.  Each alternative is <<label, requirement list>>.   *)
Alternatives(duty, req) ==
    CASE duty = "transfer"     -> << <<"transfer", TransferReqs>> >>
      [] duty = "refused"      -> << <<"refusal", RefusalReqs>> >>
      \* AXFR over UDP, or a name that is no zone of this server: no zone data (the RCODE is left open)
      [] duty = "udp"          -> << <<"no-data", NoDataReqs>> >>
      [] duty = "not-apex"     -> << <<"no-data", NoDataReqs>> >>
      \* the client is current: the single SOA; a server without IXFR may send the zone or decline
      [] duty = "ixfr-current" -> << <<"single-soa", SingleSoaReqs>>, <<"transfer", TransferReqs>>, <<"error", ErrorReqs>> >>
      \* the client is behind: the whole zone (no version history exists in the scenarios, so no
      \* incremental answer can be right), or decline; over UDP the single SOA means "retry over TCP"
      [] duty = "ixfr-older"   -> IF req.proto = "udp"
                                  THEN << <<"transfer", TransferReqs>>, <<"error", ErrorReqs>>, <<"single-soa", SingleSoaReqs>> >>
                                  ELSE << <<"transfer", TransferReqs>>, <<"error", ErrorReqs>> >>
      [] duty = "ixfr-denied"  -> << <<"denied", DeniedReqs>> >>

(* Per alternative the set of failed requirements; conforming = some set empty. *)
ServerFailures(duty, msgs, zone, req, foreign) ==
    LET alts == Alternatives(duty, req)
    IN [i \in DOMAIN alts |-> [alt |-> alts[i][1], failed |-> FailedOf(alts[i][2], msgs, zone, req, foreign)]]

ServerConforms(duty, msgs, zone, req, foreign) ==
    LET f == ServerFailures(duty, msgs, zone, req, foreign) IN \E i \in DOMAIN f : f[i].failed = {}

(* ========================================================================= *)
(* Client side.  A script is the sequence of response messages [rc, an] the   *)
(* layer below hands to the transfer client, followed by how that layer ends  *)
(* the stream: "end" (plain end) or "err" (time-out / connection lost).       *)
(* mode "axfr" | "ixfr"; have = the serial the IXFR client sent.              *)
(* ========================================================================= *)

IsSoa(r) == r[1] = "soa"
SoaPositions(recs) == {i \in DOMAIN recs : IsSoa(recs[i])}

\* SOA, records that are not SOAs, the same SOA (n = 2: a zone with nothing but its SOA)
AxfrShape(recs) ==
    LET n == Len(recs) IN
    /\ n >= 2 /\ IsSoa(recs[1]) /\ recs[n] = recs[1]
    /\ \A i \in 2..(n - 1) : ~IsSoa(recs[i])

\* RFC 1995 4: current SOA, then difference sequences (old SOA, deleted RRs, new SOA, added RRs),
\* closed by the current SOA: SOAs at positions 1 and 2 (different), an even number of SOAs, the
\* last record is the first again.  (Whether the versions chain is not judged.)
IncrShape(recs) ==
    LET n == Len(recs) IN
    /\ n >= 4 /\ IsSoa(recs[1]) /\ IsSoa(recs[2]) /\ recs[2] # recs[1] /\ recs[n] = recs[1]
    /\ Cardinality(SoaPositions(recs)) % 2 = 0

\* RFC 1995 2/4: a single SOA whose serial is not ahead of the client's: nothing to transfer
\* (serial numbers in the scripts are far from wrapping around)
UpToDateShape(recs, have) == Len(recs) = 1 /\ IsSoa(recs[1]) /\ recs[1][2] <= have

Flat(msgs, k) == FlatAn(SubSeq(msgs, 1, k))

ShapeAt(msgs, k, mode, have) ==
    LET recs == Flat(msgs, k) IN
    IF AxfrShape(recs) THEN "axfr"
    ELSE IF mode = "ixfr" /\ IncrShape(recs) THEN "ixfr-incremental"
    ELSE IF mode = "ixfr" /\ k = 1 /\ UpToDateShape(recs, have) THEN "ixfr-up-to-date"
    ELSE "none"

\* the transfer is complete with message k: error free so far and exactly a whole answer
DoneAt(msgs, k, mode, have) ==
    /\ \A i \in 1..k : msgs[i].rc = 0
    /\ ShapeAt(msgs, k, mode, have) # "none"

Ends(msgs, mode, have) == {k \in 1..Len(msgs) : DoneAt(msgs, k, mode, have)}

(* What the client has to conclude: "complete" with the first such k -- the    *)
(* messages 1..k delivered, nothing after them even looked at -- or "error".   *)
(* An error is owed whatever way the stream ends ("end" or "err"): a transfer  *)
(* that stops early must never pass for a zone.                                *)
ClientVerdict(msgs, mode, have) ==
    LET ks == Ends(msgs, mode, have) IN
    IF ks = {} THEN [verdict |-> "error", k |-> 0] ELSE [verdict |-> "complete", k |-> Least(ks)]

\* the same with every RCODE taken for NOERROR (to tell "malformed" from "error RCODE")
Calm(msgs) == [i \in DOMAIN msgs |-> [msgs[i] EXCEPT !.rc = 0]]

(* Why: the shape that completes the transfer, or the first reason why it is   *)
(* not one (a label for reports; the verdict does not depend on it).           *)
Why(msgs, mode, have) ==
    LET v    == ClientVerdict(msgs, mode, have)
        v0   == ClientVerdict(Calm(msgs), mode, have)
        recs == FlatAn(msgs)
        later == {i \in SoaPositions(recs) : i > 1}
    IN IF v.verdict = "complete" THEN ShapeAt(msgs, v.k, mode, have)
       ELSE IF v0.verdict = "complete" THEN "error-rcode"
       ELSE IF recs = <<>> THEN "ended-early"
       ELSE IF ~IsSoa(recs[1]) THEN "first-record-not-soa"
       ELSE IF later = {} THEN "ended-early"
       ELSE IF mode = "ixfr" /\ 2 \in later /\ recs[2] # recs[1] THEN "incremental-incomplete"
       ELSE IF recs[Least(later)] # recs[1] THEN "closing-soa-differs"
       ELSE "records-after-closing-soa"

(* The transfer request itself (RFC 5936 2.1, RFC 1995 3): QUERY, one question *)
(* <zone, AXFR|IXFR, IN>; for IXFR the client's SOA, owned by the zone, in the *)
(* authority section; for AXFR an empty authority section.                     *)
RequestOk(e) ==
    /\ e.obs = "ok" /\ e.sent = 1 /\ e.opQuery /\ e.nq = 1 /\ e.qnameOk /\ e.qclassIn
    /\ e.qtype = (IF e.mode = "ixfr" THEN "IXFR" ELSE "AXFR")
    /\ IF e.mode = "ixfr"
       THEN Len(e.auth) = 1 /\ e.auth[1].soa /\ e.auth[1].ownerOk /\ e.auth[1].serial = e.have
       ELSE e.auth = <<>>
=============================================================================
