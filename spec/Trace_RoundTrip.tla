---------------------------- MODULE Trace_RoundTrip ----------------------------
(* Trace validation for C02 (obligation T).  Events recorded from               *)
(* hickory_proto::op::Message:                                                  *)
(*   rt1     a structurally valid message was encoded and decoded again:        *)
(*           encoded decoded equal diffs                                        *)
(*   layout  buf + for every question / owner name the encoder wrote: its       *)
(*           offset and the labels of the original name                         *)
(*   place   header counts, record types in wire order, RCODE split, trailing   *)
(*   rt2     an accepted byte string was decoded, re-encoded and decoded again: *)
(*           equal truncated rdataPreserved                                     *)
(* `layout` is where the specification decides something non-trivial: whatever  *)
(* compression layout the encoder chose, every name in the encoding must MEAN   *)
(* (WireNameOps!DecodeName: labels followed by a pointer to a PRIOR, complete   *)
(* name, below offset 16384) exactly the original name, letter case included.   *)
EXTENDS WireNameOps, FiniteSets, TLC, Json, IOUtils

Rec == ndJsonDeserialize(IOEnv.TRACE)
VARIABLES l
Init == l = 1
e == Rec[l]

NameOk(buf, n) == LET d == DecodeName(buf, n.at) IN d.ok /\ d.labels = n.labels

TsigOnlyLast(ts) == \A i \in 1..Len(ts) : ts[i] = 250 => i = Len(ts)
OptCount(ts) == Cardinality({i \in 1..Len(ts) : ts[i] = 41})

Allowed ==
    \/ /\ e.ev = "rt1"                       \* C02_RoundTrip
       /\ e.encoded /\ e.decoded /\ e.equal
    \/ /\ e.ev = "layout"                    \* C02_CasePreserved / valid compression
       /\ \A i \in 1..Len(e.names) : NameOk(e.buf, e.names[i])
    \/ /\ e.ev = "place"
       /\ e.counts = e.inCounts              \* header counts = records written
       /\ Len(e.types) = e.counts[2] + e.counts[3] + e.counts[4]
       /\ TsigOnlyLast(e.types) /\ OptCount(e.types) <= 1
       /\ e.trailing = 0
       \* extended RCODE: low 4 bits in the header, high 8 bits in the OPT TTL
       /\ e.rcodeLow = e.rcode % 16
       /\ (e.rcode >= 16 => e.optTtlHigh = e.rcode \div 16)
       /\ (e.optTtlHigh >= 0 => e.optTtlHigh = e.rcode \div 16)
    \/ /\ e.ev = "rt2"                       \* re-encoding of accepted byte strings
       /\ e.reencoded => (e.redecoded /\ (e.equal \/ e.truncated) /\ e.rdataPreserved)
       /\ ~e.reencoded => e.error # "PANIC"

Reject == ~Allowed /\ PrintT(<<"MISMATCH", ToJson([case |-> e.case, line |-> l,
             event |-> IF e.ev = "layout" THEN [ev |-> "layout", case |-> e.case, names |-> e.names,
                                                 bad |-> {i \in 1..Len(e.names) : ~NameOk(e.buf, e.names[i])}]
                       ELSE e])>>)
Next == l <= Len(Rec) /\ l' = l + 1 /\ (Allowed \/ Reject)
TraceSpec == Init /\ [][Next]_<<l>>
Consumed ==
    LET d == TLCGet("stats").diameter IN
    IF d - 1 = Len(Rec) THEN PrintT(<<"TRACE-CONSUMED", Len(Rec)>>)
    ELSE PrintT(<<"TRACE-STUCK", d, Len(Rec)>>) /\ FALSE
=============================================================================
