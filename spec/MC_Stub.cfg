\* X01, obligation D: every lookup of the configuration sets (candidate lists, strategies x outcomes,
\* hosts tables, special-use names, literals, over-long combinations) x every upstream outcome
SPECIFICATION Spec
CONSTANTS
  Cfgs <- MC_All
  Outcomes <- AllOutcomes
  Rules <- Strict
INVARIANTS TypeOK X01_OnlyCandidates X01_ListOrder X01_FqdnAsksOneName X01_NoRepeats X01_NothingLocalAsked
  X01_NothingAfterSuccess X01_OnlyStrategyTypes X01_FamilyOrder X01_QuestionsAsPrescribed X01_ResultAsPrescribed
  X01_ErrorOfLast
CHECK_DEADLOCK FALSE
