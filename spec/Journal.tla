------------------------------- MODULE Journal -------------------------------
(* Property C14: a journal-backed zone survives a stop at any point.          *)
(*                                                                            *)
(* The zone lives in memory; an append-only journal of rows is what survives  *)
(* a stop of the process.  One action per journal write and per step of the   *)
(* update path, in the order the mechanism performs them (write-ahead):       *)
(*   Boot / Recover   no journal: load the zone file; else replay the journal *)
(*   DumpAll | DumpRow   initial dump: marker row, then one row per zone RR   *)
(*   Receive(m)       an UPDATE arrives; prerequisites and prescan (Update /  *)
(*                    UpdateOps decide; a rejected message writes nothing)    *)
(*   LogAll | LogRow  the update RRs go to the journal BEFORE memory changes  *)
(*   Apply            memory is updated, the serial is incremented            *)
(*   SoaRow           the post-update SOA goes to the journal                 *)
(*   Ack              the reply leaves: the update is acknowledged            *)
(*   Crash            the process stops (enabled everywhere): memory is lost, *)
(*                    the journal keeps exactly the rows committed so far     *)
(* Two switches select how rows are committed:                                *)
(*   AtomicDump / AtomicMsg = TRUE   REQUIRED rule: the initial dump, and     *)
(*        the rows of one message (update RRs + SOA), are one commit          *)
(*   FALSE   AS-IS rule of the code: every row is its own commit              *)
(* MC_Journal checks the C14_* requirements for the required rule; the as-is  *)
(* configurations are expected to fail and document the design-level          *)
(* counterexamples behind the known findings.  Conformance (Trace_Journal)    *)
(* always judges the implementation by JournalOps!RecoveryOK, i.e. by the     *)
(* requirement, never by the as-is rule.                                      *)
EXTENDS Naturals, Sequences, FiniteSets, UpdateOps, JournalOps

CONSTANTS Apex, InitRRs, InitSer, Msgs, MaxMsgs, MaxCrashes, AtomicDump, AtomicMsg

VARIABLES mem,      \* [rrs, ser]: the zone in memory (meaningless while down)
          journal,  \* sequence of rows: the only thing that survives a Crash
          pc,       \* "boot" | "dump" | "idle" | "log" | "apply" | "soa" | "ack" | "down"
          msg, i,   \* message in flight, index of the next row to write
          fin,      \* [rrs, ser, changed]: what the message in flight will leave (decided at Receive)
          reply,
          hist,     \* history variable: boundaries <<[rrs, ser, rows], ...>> since the last (re)start
          chk,      \* history variable: verdict of JournalOps on the last recovery
          served,   \* history variable: serials a query could have been answered with since the last start
          n, crashes

vars == <<mem, journal, pc, msg, i, fin, reply, hist, chk, served, n, crashes>>

NoMsg == [pre |-> <<>>, upd |-> <<>>]
Lost  == [rrs |-> {}, ser |-> <<0, 0>>]
AllOK == [boundary |-> TRUE, serial |-> TRUE, servable |-> TRUE]

\* a fixed order for the rows of a dump
RECURSIVE SetToSeq(_)
SetToSeq(T) == IF T = {} THEN <<>> ELSE LET x == CHOOSE y \in T : TRUE IN <<x>> \o SetToSeq(T \ {x})

Marker       == [k |-> "marker"]
ZoneRow(r, s) == [k |-> "zone", rr |-> r, ser |-> s]
UpdRow(u)    == [k |-> "upd", u |-> u]
SoaRowOf(s)  == [k |-> "soa", ser |-> s]
DumpRows(st) == <<Marker>> \o [q \in 1..Cardinality(st.rrs) |-> ZoneRow(SetToSeq(st.rrs)[q], st.ser)]

\* replay: marker clears; a zone row is an add; an update row is applied as a one-RR update
\* without serial increment; an SOA row installs its serial if that is an advance
ReplayRow(st, r) ==
    CASE r.k = "marker" -> Lost
      [] r.k = "zone"   -> [rrs |-> st.rrs \cup {r.rr}, ser |-> IF r.rr[2] = "SOA" THEN r.ser ELSE st.ser]
      [] r.k = "upd"    -> PseudoRR(st, r.u, Apex)
      [] OTHER          -> [st EXCEPT !.ser = IF SerialGT(r.ser, st.ser) THEN r.ser ELSE st.ser]
RECURSIVE ReplayFrom(_, _, _)
ReplayFrom(j, q, st) == IF q > Len(j) THEN st ELSE ReplayFrom(j, q + 1, ReplayRow(st, j[q]))
Replay(j) == ReplayFrom(j, 1, Lost)

Boundary(st, rows) == [rrs |-> st.rrs, ser |-> st.ser, rows |-> rows, sg |-> FALSE]
\* the boundary a message in flight is heading for is entered when the message arrives, with a row
\* count no journal reaches; Ack replaces it by the real one.  (The monitor knows the whole
\* history afterwards; the machine has to carry the pending boundary.)
Far == 1000000

\* what an accepted message leaves: the update RRs applied in order, serial incremented if some
\* RR changed the zone and the update did not itself install a higher SOA (RFC 2136 3.6)
RECURSIVE Fold(_, _, _)
Fold(st, upd, q) == IF q > Len(upd) THEN st ELSE Fold(PseudoRR(st, upd[q], Apex), upd, q + 1)
RECURSIVE Touched(_, _, _)
Touched(st, upd, q) ==
    IF q > Len(upd) THEN FALSE
    ELSE PseudoRR(st, upd[q], Apex) # st \/ Touched(PseudoRR(st, upd[q], Apex), upd, q + 1)
Final(st, upd) ==
    LET f == Fold(st, upd, 1)
        t == Touched(st, upd, 1)
    IN  [rrs |-> f.rrs, ser |-> IF t /\ f.ser = st.ser THEN SerialInc(f.ser) ELSE f.ser, changed |-> t]

Init ==
    /\ mem = Lost /\ journal = <<>> /\ pc = "boot" /\ msg = NoMsg /\ i = 0
    /\ fin = [rrs |-> {}, ser |-> <<0, 0>>, changed |-> FALSE] /\ reply = "none"
    /\ hist = <<>> /\ chk = AllOK /\ served = {} /\ n = 0 /\ crashes = 0

\* ---- start without a journal: zone file, then the initial dump
Boot ==
    /\ pc = "boot" /\ journal = <<>>
    /\ mem' = [rrs |-> InitRRs, ser |-> InitSer] /\ pc' = "dump" /\ i' = 1
    \* boundary 0 is the zone of the zone file; it is reached when the dump is complete
    /\ hist' = <<Boundary(mem', 1 + Cardinality(InitRRs))>>
    /\ served' = {}      \* the server does not answer before the dump is done
    /\ UNCHANGED <<journal, msg, fin, reply, chk, n, crashes>>

DumpAll ==
    /\ pc = "dump" /\ AtomicDump
    /\ journal' = DumpRows(mem)
    /\ pc' = "idle" /\ served' = {mem.ser}
    /\ UNCHANGED <<mem, msg, i, fin, reply, hist, chk, n, crashes>>

DumpRow ==
    /\ pc = "dump" /\ ~AtomicDump
    /\ IF i <= Len(DumpRows(mem))
       THEN journal' = Append(journal, DumpRows(mem)[i]) /\ i' = i + 1 /\ pc' = pc /\ served' = served
       ELSE pc' = "idle" /\ served' = {mem.ser} /\ UNCHANGED <<journal, i>>
    /\ UNCHANGED <<mem, msg, fin, reply, hist, chk, n, crashes>>

\* ---- one UPDATE message
Receive ==
    /\ pc = "idle" /\ n < MaxMsgs
    /\ \E m \in Msgs :
         /\ msg' = m
         /\ LET errs == PrereqErrors(mem, m.pre, Apex) \cup PrescanErrors(m.upd, Apex) IN
            \* a zone-class RR without RDATA (UpdateOps!EmptyAdd) may be refused or added as it is;
            \* either way the decision falls HERE, before the first row goes to the journal: "a
            \* refused update leaves nothing in the journal that changes or breaks recovery"
            \E refuse \in (IF errs = {} /\ HasEmptyAdd(m.upd) THEN BOOLEAN ELSE {FALSE}) :
            IF errs # {} \/ refuse
            THEN /\ reply' = (IF errs # {} THEN CHOOSE c \in errs : TRUE ELSE "FORMERR")
                 /\ pc' = "ack" /\ fin' = [rrs |-> mem.rrs, ser |-> mem.ser, changed |-> FALSE]
            ELSE /\ reply' = "NOERROR" /\ pc' = "log" /\ fin' = Final(mem, m.upd)
    /\ i' = 1
    /\ hist' = Append(hist, Boundary(fin', Far))
    /\ UNCHANGED <<mem, journal, chk, served, n, crashes>>

\* ---- fault: for the duration of one message another connection (a backup, the sqlite3 shell)
\* holds the write lock of the journal.  The write-ahead rows of an otherwise acceptable message
\* cannot be written: the message is refused (SERVFAIL) and nothing is applied.  (Waiting until the
\* lock is gone and going on as usual is the normal Receive.)  What may not happen is the update
\* applied and acknowledged without its rows -- acknowledged and lost at the next stop.
LockHeld ==
    /\ pc = "idle" /\ n < MaxMsgs
    /\ \E m \in Msgs :
         /\ PrereqErrors(mem, m.pre, Apex) \cup PrescanErrors(m.upd, Apex) = {} /\ Len(m.upd) > 0
         /\ msg' = m
    /\ reply' = "SERVFAIL" /\ pc' = "ack" /\ i' = 1
    /\ fin' = [rrs |-> mem.rrs, ser |-> mem.ser, changed |-> FALSE]
    /\ hist' = Append(hist, Boundary(fin', Far))
    /\ UNCHANGED <<mem, journal, chk, served, n, crashes>>

MsgRows == [q \in 1..Len(msg.upd) |-> UpdRow(msg.upd[q])]
           \o (IF fin.changed THEN <<SoaRowOf(fin.ser)>> ELSE <<>>)

LogAll ==
    /\ pc = "log" /\ AtomicMsg
    /\ journal' = journal \o MsgRows
    /\ pc' = "apply"
    /\ UNCHANGED <<mem, msg, i, fin, reply, hist, chk, served, n, crashes>>

LogRow ==
    /\ pc = "log" /\ ~AtomicMsg
    /\ IF i <= Len(msg.upd)
       THEN journal' = Append(journal, UpdRow(msg.upd[i])) /\ i' = i + 1 /\ pc' = pc
       ELSE pc' = "apply" /\ UNCHANGED <<journal, i>>
    /\ UNCHANGED <<mem, msg, fin, reply, hist, chk, served, n, crashes>>

Apply ==
    /\ pc = "apply"
    /\ mem' = [rrs |-> fin.rrs, ser |-> fin.ser]
    /\ pc' = IF fin.changed /\ ~AtomicMsg THEN "soa" ELSE "ack"
    /\ served' = served \cup {fin.ser}     \* from now on a query sees the new serial
    /\ UNCHANGED <<journal, msg, i, fin, reply, hist, chk, n, crashes>>

SoaRow ==
    /\ pc = "soa"
    /\ journal' = Append(journal, SoaRowOf(mem.ser))
    /\ pc' = "ack"
    /\ UNCHANGED <<mem, msg, i, fin, reply, hist, chk, served, n, crashes>>

Ack ==
    /\ pc = "ack"
    /\ hist' = [hist EXCEPT ![Len(hist)] = Boundary(mem, Len(journal))]
    /\ n' = n + 1 /\ pc' = "idle"
    /\ UNCHANGED <<mem, journal, msg, i, fin, reply, chk, served, crashes>>

\* ---- stop and restart
Crash ==
    /\ pc \notin {"down", "boot"} /\ crashes < MaxCrashes
    /\ pc' = "down" /\ mem' = Lost /\ crashes' = crashes + 1
    /\ UNCHANGED <<journal, msg, i, fin, reply, hist, chk, served, n>>

Recover ==
    /\ pc = "down"
    /\ IF journal = <<>>
       THEN \* nothing was ever committed: as if started for the first time
            /\ pc' = "boot" /\ UNCHANGED <<mem, chk, hist, served>>
       ELSE /\ mem' = Replay(journal)
            /\ chk' = [boundary |-> \E c \in Candidates(hist, Len(journal)) : IsBoundary(mem', hist[c]),
                       serial   |-> \A sv \in served : SerialGE(mem'.ser, sv),
                       servable |-> WellFormed(mem'.rrs, Apex)]
            /\ hist' = <<Boundary(mem', Len(journal))>>
            /\ served' = {mem'.ser}
            /\ pc' = "idle"
    /\ UNCHANGED <<journal, msg, i, fin, reply, n, crashes>>

Next == Boot \/ DumpAll \/ DumpRow \/ Receive \/ LockHeld \/ LogAll \/ LogRow \/ Apply \/ SoaRow \/ Ack \/ Crash \/ Recover
Spec == Init /\ [][Next]_vars

-----------------------------------------------------------------------------
(* Requirements of C14 (on what a client can observe: replies given before   *)
(* the stop -- hist -- and the zone served after the restart -- mem)         *)

\* "reconstructs the zone as of a boundary between whole UPDATE messages: every update
\* acknowledged with NOERROR is present, no update is half-applied"
C14_Boundary       == chk.boundary
C14_AckedDurable   == chk.boundary   \* Candidates() starts at the last acknowledged message
C14_NoHalfApplied  == chk.boundary   \* ... and contains whole-message boundaries only
\* "recovery never fails on a journal the server itself wrote": replay is total, and what it
\* yields is a zone a server can serve
C14_RecoverTotal   == chk.servable
\* "The SOA serial after recovery is never lower than any serial the server had answered with"
C14_SerialMonotone == chk.serial
\* "further updates after recovery behave as if no restart had happened": the zone in memory is
\* always what the journal would give back (so the next message is judged on the same zone)
C14_Transparent    == pc = "idle" => mem = Replay(journal)
\* while up and between messages the zone is well-formed (C12 carried over)
C14_ZoneOK         == pc = "idle" => WellFormed(mem.rrs, Apex)

TypeOK ==
    /\ pc \in {"boot", "dump", "idle", "log", "apply", "soa", "ack", "down"}
    /\ n \in 0..MaxMsgs /\ crashes \in 0..MaxCrashes
=============================================================================
