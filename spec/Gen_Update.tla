---------------------------- MODULE Gen_Update ----------------------------
(* Behaviour generator for Update (C12, obligation R: spec -> impl).        *)
(* Walks the machine of Update.tla with a history variable; every complete  *)
(* history (MaxMsgs answered messages) is printed as one REPLAY line with   *)
(* the initial zone, the messages and, per message,                          *)
(*   chosen  reply / zone / serial the behaviour took, and                   *)
(*   alts    every outcome the specification allows (UpdateOps!Outcomes).    *)
(* Where the specification leaves a choice (RFC 2136 prose vs pseudocode,   *)
(* the lenient reading of 3.2.3, serial after an explicit SOA) the          *)
(* generator branches, so the implementation's path is among the lines.     *)
EXTENDS Update, TLC, Json

CONSTANTS Signeds,    \* zone dimension: is the zone DNSSEC-signed (the server then maintains RRSIG / NSEC /
                      \* DNSKEY records and re-signs after every accepted update)?  The requirement does
                      \* not depend on it: RFC 2136 3.4.2 and the C12 invariants speak about the RRsets
                      \* other than the DNSSEC types the server itself maintains ("CNAME and other
                      \* data" explicitly excepts them, RFC 4035 2.5), and a signed zone has to end in
                      \* exactly the same projected contents / RCODE / serial advance as an unsigned one.
          MsgsAt,     \* MsgsAt[k]: the messages that may come k-th (k in 1..MaxMsgs)
          SimPre, SimUpd \* RR pools of the random-walk generator (only with -simulate; {} otherwise)
VARIABLES log, init,
          clean   \* every SOA the message in flight installed so far was strictly greater (RFC 1982)
                  \* than the serial it replaced (UpdateOps!ApplyFrom, field c)

gvars == <<vars, log, init, clean>>

GInit == Init /\ log = <<>> /\ clean = TRUE
         /\ \E b \in Signeds : init = [rrs |-> rrs, ser |-> ser, signed |-> b]

GBegin ==
    /\ pc = "idle" /\ n < MaxMsgs
    /\ \E m \in MsgsAt[n + 1] : msg' = m
    /\ pc' = "pre" /\ i' = 1 /\ snap' = Cur /\ touched' = FALSE /\ clean' = TRUE
    /\ UNCHANGED <<rrs, ser, reply, n>>

\* -simulate: enumerating ~10^4 successor states per message just to pick one is far too slow;
\* the random walk draws the message itself (0-2 prerequisites, 0-3 update RRs from the pools)
Pick(S) == RandomElement(S)
GBeginSim ==
    /\ SimUpd # {}
    /\ pc = "idle" /\ n < MaxMsgs
    /\ LET a == Pick(1..10) b == Pick(1..10)
           np == IF a <= 5 THEN 0 ELSE IF a <= 9 THEN 1 ELSE 2
           nu == IF b <= 5 THEN 1 ELSE IF b <= 8 THEN 2 ELSE IF b = 9 THEN 3 ELSE 0
           \* explicit tuples: a function constructor would be evaluated lazily, i.e. draw again
           \* every time an element is looked at
           ps == CASE np = 0 -> <<>> [] np = 1 -> <<Pick(SimPre)>> [] OTHER -> <<Pick(SimPre), Pick(SimPre)>>
           us == CASE nu = 0 -> <<>> [] nu = 1 -> <<Pick(SimUpd)>> [] nu = 2 -> <<Pick(SimUpd), Pick(SimUpd)>>
                   [] OTHER -> <<Pick(SimUpd), Pick(SimUpd), Pick(SimUpd)>>
       IN  msg' = [pre |-> ps, upd |-> us]
    /\ pc' = "pre" /\ i' = 1 /\ snap' = Cur /\ touched' = FALSE /\ clean' = TRUE
    /\ UNCHANGED <<rrs, ser, reply, n>>

\* lenient reading of 3.2.3 (UpdateOps!PrereqLenient): go on although the RRsets are not equal
PrereqValuesLenient ==
    /\ pc = "pre" /\ i > Len(msg.pre)
    /\ PrereqLenient(Cur, msg.pre, Apex)
    /\ pc' = "scan" /\ i' = 1
    /\ UNCHANGED <<rrs, ser, msg, snap, touched, reply, n>>

\* the serial the behaviour ends with has to be one the specification allows (UpdateOps!SerialFits):
\* where the update installed SOAs in a way that leaves no allowed end serial on this path (an SOA
\* at the undefined distance 2^31 taken as installed, then moved on), the path is not continued --
\* the other reading of the same message (SOA ignored) is another behaviour of the generator
Adv == IF Cur # snap THEN "must" ELSE IF touched THEN "may" ELSE "no"
Fits(s) == SerialFits(snap, [adv |-> Adv, floor |-> ser, clean |-> clean], s)

GApplyRR == ApplyRR /\ clean' = (clean /\ (ser' = ser \/ SerialGT(ser', ser)))
GFinish  == Finish /\ Fits(ser')

\* a server that increments the serial even though the update itself installed a higher SOA
FinishInc ==
    /\ pc = "apply" /\ i > Len(msg.upd)
    /\ touched /\ ser # snap.ser
    /\ ser' = SerialInc(ser)
    /\ Fits(ser')
    /\ reply' = "NOERROR" /\ pc' = "fin"
    /\ UNCHANGED <<rrs, msg, i, snap, touched, n>>

Entry == [m |-> msg, chosen |-> [rc |-> reply, rrs |-> rrs, ser |-> ser], alts |-> Outcomes(snap, msg, Apex)]

Quiet == UNCHANGED <<log, init>>
Same  == UNCHANGED clean
GNext ==
    \/ GBegin /\ Quiet
    \/ GBeginSim /\ Quiet
    \/ CheckPrereq /\ Quiet /\ Same
    \/ PrereqValues /\ Quiet /\ Same
    \/ PrereqValuesLenient /\ Quiet /\ Same
    \/ Prescan /\ Quiet /\ Same
    \/ PrescanEmptyRdata /\ Quiet /\ Same
    \/ GApplyRR /\ Quiet
    \/ GFinish /\ Quiet /\ Same
    \/ FinishInc /\ Quiet /\ Same
    \/ Deliver /\ log' = Append(log, Entry) /\ init' = init /\ Same

GSpec == GInit /\ [][GNext]_gvars

Complete == pc = "idle" /\ n = MaxMsgs

Case == [apex |-> Apex, zone |-> init.rrs, ser |-> init.ser, signed |-> init.signed,
         msgs |-> [k \in 1..Len(log) |-> log[k].m],
         exp  |-> [k \in 1..Len(log) |-> [chosen |-> log[k].chosen, alts |-> log[k].alts]]]

Emit == Complete => PrintT(<<"REPLAY", ToJson(Case)>>)

\* every generated behaviour satisfies the requirement (the generator itself is checked)
GenSound == Answered => \E o \in Outcomes(snap, msg, Apex) : Realises(snap, o, reply, rrs, ser)
=============================================================================
