SPECIFICATION Spec
CONSTANTS
  M = 32
  Inc = 30
  Exp = 5
  IncAlt = 27
  ExpAlt = 9
  OrigTtl = 4
  OrigTtlAlt = 9
  RecTtls <- MC_RecTtls
  Steps <- MCH_Steps
  MaxMono = 12
  MaxCalls = 2
  ClkStarts <- MCH_Starts
  ArgSet <- MCH_Args
  RRV <- MCH_RRV
  SIGV <- MCH_SIGV
  KEYV <- MCH_KEYV
  NameCaseSigned = TRUE
  CacheRule = "required"
  CfgMin = 0
  CfgMax = 99
  Deviation = "none"
INVARIANTS NotCachedSecure
CHECK_DEADLOCK FALSE
