SPECIFICATION Spec
CONSTANTS
  T = 10
  Gap = 6
  MaxNow = 40
INVARIANT ActiveNeverCut
PROPERTY BusyNeverCut
CHECK_DEADLOCK FALSE
