------------------------------ MODULE Trace_Names ------------------------------
(* Trace validation for C04 (obligation T).  Independent events recorded from   *)
(* hickory_proto::rr::Name:                                                     *)
(*   cmp   a b cmp eq hashEq lowerCmp keyCmp   Ord / Eq / Hash / LowerName /    *)
(*                                             RrKey on two names (label lists) *)
(*   wire  in out ok          emit at some message offset (compressed or not,   *)
(*                            after related names) and decode again             *)
(*   text  in out ok          host-style name formatted and re-parsed           *)
(*   op    pre arg ok post    a constructor / combinator and its outcome        *)
EXTENDS DnsNames, TLC, Json, IOUtils

Rec == ndJsonDeserialize(IOEnv.TRACE)
VARIABLES l
Init == l = 1
e == Rec[l]

Allowed ==
    \/ /\ e.ev = "cmp"
       /\ e.cmp = CanonCmp(e.a, e.b)              \* C04_CmpIsCanon
       /\ e.eq = NameEq(e.a, e.b)                 \* C04_EqIsFoldedEq
       /\ (e.eq => e.hashEq)                      \* C04_HashRespectsEq
       /\ e.lowerCmp = e.cmp /\ e.keyCmp = e.cmp  \* LowerName and RrKey order names the same way
    \/ /\ e.ev = "wire"                           \* C04_WireIdentity (case-exact)
       /\ ValidName(e.in) => (e.ok /\ e.out = e.in)
       /\ e.ok => ValidName(e.out)
    \/ /\ e.ev = "text"                           \* C04_TextIdentity
       \* identity of names is case-insensitive (first sentence of the property); the UTF-8/IDNA
       \* entry points (FromStr, Name::parse) lower-case by design, the ASCII entry point
       \* (variant 0: to_ascii -> from_ascii) keeps the letter case too
       /\ e.ok /\ NameEq(e.out, e.in)
       /\ (e.variant = 0 => e.out = e.in)
    \/ /\ e.ev = "op"                             \* C04_NeverOversize
       /\ e.ok = ValidName(e.want)
       /\ e.ok => e.post = e.want
       /\ ValidName(e.post)

Reject == ~Allowed /\ PrintT(<<"MISMATCH", ToJson([case |-> e.case, line |-> l, event |-> e])>>)
Next == l <= Len(Rec) /\ l' = l + 1 /\ (Allowed \/ Reject)
TraceSpec == Init /\ [][Next]_<<l>>
Consumed ==
    LET d == TLCGet("stats").diameter IN
    IF d - 1 = Len(Rec) THEN PrintT(<<"TRACE-CONSUMED", Len(Rec)>>)
    ELSE PrintT(<<"TRACE-STUCK", d, Len(Rec)>>) /\ FALSE
=============================================================================
