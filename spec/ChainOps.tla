------------------------------ MODULE ChainOps ------------------------------
(* C07 -- chain of trust: the declarative requirements as constant-free     *)
(* operators, shared by the machine (Chain), the case generator (Gen_Chain) *)
(* and the trace monitor (Trace_Chain).                                     *)
(*                                                                          *)
(* Written from the property statement and RFC 4035 sections 4.3, 5, 5.1,   *)
(* 5.2, 5.3, 5.4, RFC 6840 sections 4.4, 5.2, 6.1 -- not from the code.     *)
(*                                                                          *)
(* WORLD  w = [n, signed, link, keys, anchors]                              *)
(*   zones 1..n, zone 1 is the root, zone i+1 is delegated from zone i;     *)
(*   signed[i]   the zone publishes DNSKEY / RRSIG / NSEC;                  *)
(*   link[i]     what the parent publishes at the cut of zone i:            *)
(*     "ds"        a DS (supported algorithm and digest) of the child's     *)
(*                 first key;                                               *)
(*     "nods"      no DS (a signed parent then proves this with an NSEC     *)
(*                 at the cut: NS set, DS and SOA clear);                   *)
(*     "dsunsup"   only DS records with an unknown algorithm or digest      *)
(*                 type (RFC 4035 5.2: treat the child as unsigned);        *)
(*     "dsphantom" a DS of a key the child does not publish (broken);       *)
(*   keys[i]     1 or 2 zone keys; both sign every RRset of the zone; the   *)
(*               DS / the trust anchor is for the first key only;           *)
(*   anchors     zones whose first key is a configured trust anchor.        *)
(* QUERY  q in QueryKinds (see there), always for a name of zone n.         *)
(* RESPONSES the validator may fetch: <<"ANS",0>> (the answer),             *)
(*   <<"KEY",z>> (DNSKEY of zone z), <<"DS",z>> (DS at the cut of zone z,   *)
(*   answered by zone z-1), <<"NS",z>> (unauthenticated NS look-ups used    *)
(*   to find zone cuts; z = 0: at the query name).                          *)
(* ITEMS of a response: an RRset together with its RRSIGs:                  *)
(*   ANS: data | soa, nsecq (matches / covers the name), nsecw (covers the  *)
(*   wildcard); KEY: dnskey; DS: ds | soa, nsecds; NS: ns.                  *)
(* FAULT  f = [resp, z, item, op]: what the adversary does to one item of   *)
(*   one upstream response (he owns the path, not the zones' keys; he does  *)
(*   own the key of an unrelated, securely delegated zone "evil."):         *)
(*   dropSig (all RRSIGs of the item), dropSig1 / dropSig2 (the RRSIG made  *)
(*   by the zone's first / second key), sigBit (one bit of the signature),  *)
(*   alter (a signed bit of a record), addRec (one more record in the       *)
(*   RRset), forge (alter + RRSIG by a key of his own claiming the zone as  *)
(*   signer), forgeEvil (alter + RRSIG by the evil. zone's key, signer      *)
(*   evil.), forgeIsland (alter + RRSIG naming as signer the unrelated zone *)
(*   island., which is signed but whose DS is provably absent), swapKey     *)
(*   (DNSKEY RRset replaced by his key, self-signed),                       *)
(*   dropSet (RRset and RRSIGs removed), dropMsg (SERVFAIL instead of the   *)
(*   response), childSide (the DS query answered by the child zone:         *)
(*   NODATA with the child's own apex NSEC, RFC 6840 4.4), inject (an       *)
(*   unsigned foreign RRset added: item "inj" of ANS; an NS RRset at the    *)
(*   query name in the NS response).                                        *)
EXTENDS Naturals, Sequences, FiniteSets

LinkKinds == {"ds", "dsmixed", "nods", "dsunsup", "dsphantom"}
\* the DS RRset holds a record of a supported algorithm and digest type that matches a child key
\* ("dsmixed": followed by records of unsupported algorithm / digest type; RFC 4035 5.2 treats the
\* child as unsigned only if *no* DS record is usable, in whatever order the records arrive)
SecureLinks == {"ds", "dsmixed"}
\* "cname": the name is an alias whose target (one label deeper, next to a wildcard) is in the same
\* zone, answered with the CNAME RRset ("cname") and the target's RRset ("data");
\* "wild": the name is matched by a wildcard only, answered with the expanded RRset ("data") and the
\* NSEC that proves that no closer match exists ("nsecq", RFC 4035 5.3.4)
QueryKinds == {"pos", "nodata", "nx", "cname", "wild"}

ValidWorld(w) ==
    /\ w.n >= 1 /\ Len(w.signed) = w.n /\ Len(w.link) = w.n /\ Len(w.keys) = w.n
    /\ w.link[1] = "none" /\ w.signed[1] /\ 1 \in w.anchors
    /\ \A i \in 1..w.n : w.keys[i] \in 1..2
    /\ \A i \in 2..w.n : /\ w.link[i] \in LinkKinds
                         /\ (w.link[i] \in SecureLinks => w.signed[i])
                         /\ (~w.signed[i - 1] => w.link[i] = "nods")
    /\ \A a \in w.anchors : a \in 1..w.n /\ w.signed[a]

\* -------------------------------------------------------------------------
\* what the genuine responses carry

\* the zone that signs the items of a response
ZoneOfResp(w, resp, z) == IF resp = "ANS" THEN w.n ELSE IF resp = "DS" THEN z - 1 ELSE z

AnsItems(w, q) ==
    IF q = "pos" THEN {"data"}
    ELSE IF q = "cname" THEN {"cname", "data"}
    ELSE IF q = "wild" THEN (IF w.signed[w.n] THEN {"data", "nsecq"} ELSE {"data"})
    ELSE IF ~w.signed[w.n] THEN {"soa"}
    ELSE IF q = "nodata" THEN {"soa", "nsecq"} ELSE {"soa", "nsecq", "nsecw"}
KeyItems(w, z) == IF w.signed[z] THEN {"dnskey"} ELSE {"soa"}
DsItems(w, z) ==
    IF w.link[z] # "nods" THEN {"ds"} ELSE IF w.signed[z - 1] THEN {"soa", "nsecds"} ELSE {"soa"}

\* the NSEC records without which the denial of the query is not proven (RFC 4035 5.4)
Needed(q) == IF q = "nodata" THEN {"nsecq"} ELSE IF q = "nx" THEN {"nsecq", "nsecw"} ELSE {}
\* the NSEC records without which an RRset of a positive answer is not authenticated: a
\* wildcard-expanded RRset needs the proof that no closer match exists (RFC 4035 5.3.4)
ProofOf(q, item) == IF q = "wild" /\ item = "data" THEN {"nsecq"} ELSE {}

\* -------------------------------------------------------------------------
\* what is delivered under a set of faults

SigOps     == {"dropSig", "dropSig1", "dropSig2", "sigBit"}
ContentOps == {"alter", "addRec", "forge", "forgeEvil", "forgeIsland", "swapKey", "wildSub", "wildSubSwap"}
WholeOps   == {"dropMsg", "childSide"}
\* further operations:
\*   wildSub    (target RRset of a "cname" answer) replaced by the wildcard's RRset and genuine
\*              wildcard RRSIG with the owner renamed to the target, no NSEC added;
\*   wildSubSwap  a history: the question is put twice to the same validator; both responses are
\*              wildSub plus, next to the genuine wildcard RRSIG, a copy whose Labels field claims
\*              "not expanded" (it does not verify); the two RRSIGs change places between the
\*              responses.  Every observation of the history is judged: the data is not the zone's.
\*   reorder    the records of the RRset are delivered in the opposite order: the order of records
\*              inside an RRset is not signed, the item stays what it is;
\*   foreignDs  a scripted attack on several responses at once: the DS response of zone z gets, next
\*              to the genuine DS RRset, a DS RRset owned by a name of the unrelated insecure zone
\*              island. whose digest is of an attacker key for zone z, signed with a made-up key of
\*              island. that the (replaced) DNSKEY response of island. publishes; the DNSKEY RRset of
\*              zone z is replaced by the attacker key and the answer is signed with it.  In terms
\*              of items: the DS item is untouched, the DNSKEY of z and the data are not the zone's.
\*   childKeyVouches  a scripted attack with the key of a zone the attacker holds and that zone z
\*              delegates securely (kid.<z>): the genuine, self-signed, DS-matched DNSKEY RRset of
\*              that child is appended (under its own owner name) to the DNSKEY response of zone z,
\*              and the answer is replaced by data signed with the child's key, the RRSIG naming
\*              zone z as signer.  In terms of items: the DNSKEY item of z is untouched, the data is
\*              not the zone's (RFC 4035 5.3.1: the key must be in the *signer's* apex DNSKEY RRset).
\* Not faults but ways of delivery (the monitor and the generator ignore them): "twice" -- the
\* question is put twice to the same validator and the second time every section of every upstream
\* response arrives in the opposite order (the order of records and RRSIGs is not signed; every
\* observation is judged); "upper" -- every owner name of
\* every upstream response respelled in upper case.  The letter case of owner names is not signed
\* (RFC 4034 6.2), every item stays what it is, and so every requirement below is unchanged.
Expand(w, F) ==
    F \cup UNION {{[resp |-> "KEY", z |-> f.z, item |-> "dnskey", op |-> "swapKey"]}
                  \cup (IF f.z = w.n THEN {[resp |-> "ANS", z |-> 0, item |-> "data", op |-> "forge"]} ELSE {})
                  : f \in {g \in F : g.op = "foreignDs"}}
      \cup UNION {(IF f.z = w.n THEN {[resp |-> "ANS", z |-> 0, item |-> "data", op |-> "forge"]} ELSE {})
                  : f \in {g \in F : g.op = "childKeyVouches"}}

\* the keys whose signature authenticates the item: for the apex DNSKEY RRset only a key
\* that the DS (the trust anchor) vouches for (RFC 4035 5.2, 5.3.1), otherwise any zone key
UsefulSigners(w, zone, item) == IF item = "dnskey" THEN {1} ELSE 1..w.keys[zone]

\* "genuine": the records are exactly the zone's and a signature by a useful key came with them;
\* "nosig":   the records are exactly the zone's but no useful signature came with them;
\* "altered": the records are not the zone's;   "absent": the RRset was not delivered
ItemState(w, F, resp, z, item) ==
    LET zone  == ZoneOfResp(w, resp, z)
        fs    == {f \in Expand(w, F) : f.resp = resp /\ f.z = z}
        ops   == {f.op : f \in {g \in fs : g.item = item}}
        whole == {f.op : f \in fs} \cap WholeOps
        lost  == IF ops \cap {"dropSig", "sigBit"} # {} THEN {1, 2}
                 ELSE (IF "dropSig1" \in ops THEN {1} ELSE {}) \cup (IF "dropSig2" \in ops THEN {2} ELSE {})
    IN  IF whole # {} \/ "dropSet" \in ops THEN "absent"
        ELSE IF ops \cap ContentOps # {} THEN "altered"
        ELSE IF UsefulSigners(w, zone, item) \subseteq lost THEN "nosig"
        ELSE "genuine"

Injected(F) == \E f \in F : f.resp = "ANS" /\ f.op = "inject"

\* -------------------------------------------------------------------------
\* the chain of trust (property, first sentence; RFC 4035 5, 5.2)

\* the apex DNSKEY RRset of an anchored zone: its content must be the zone's; it is vouched
\* for by a signature of the anchored key or, if every key in it is itself a configured
\* anchor, by the configuration
AnchorKeysOk(w, F, a) ==
    ItemState(w, F, "KEY", a, "dnskey") \in (IF w.keys[a] = 1 THEN {"genuine", "nosig"} ELSE {"genuine"})

\* the link parent -> zone j: the authenticated DS RRset holds a digest of a key of the child's
\* authenticated-by-that-key DNSKEY RRset
LinkOk(w, F, j) ==
    /\ w.signed[j] /\ w.link[j] \in SecureLinks
    /\ ItemState(w, F, "DS", j, "ds") = "genuine"
    /\ ItemState(w, F, "KEY", j, "dnskey") = "genuine"

ChainFrom(w, F, a, i) ==
    /\ a \in w.anchors /\ a <= i
    /\ AnchorKeysOk(w, F, a)
    /\ \A j \in (a + 1)..i : LinkOk(w, F, j)

\* UnbrokenChain for the keys of zone i
Intact(w, F, i) == \E a \in w.anchors : ChainFrom(w, F, a, i)

\* zone i is below a cut that is proven insecure by authenticated data of a zone with an
\* unbroken chain (property, last sentence; RFC 4035 5.2: "If the validator authenticates an
\* NSEC RRset that proves that no DS RRset is present ..." / "no supported algorithms")
DenialOk(w, F, c) ==
    IF w.link[c] = "nods" THEN ItemState(w, F, "DS", c, "nsecds") = "genuine"
    ELSE ItemState(w, F, "DS", c, "ds") = "genuine"
ProvenInsecureCut(w, F, c) ==
    /\ w.link[c] \in {"nods", "dsunsup"} /\ w.signed[c - 1]
    /\ Intact(w, F, c - 1) /\ DenialOk(w, F, c)
InsecureOk(w, F, i) == \E c \in 2..i : ProvenInsecureCut(w, F, c)

\* -------------------------------------------------------------------------
\* requirements on what the validator hands back for a query in zone n

\* an RRset of the final response may be marked Secure
SecureOk(w, F, q, item) ==
    /\ item # "inj" /\ w.signed[w.n]
    /\ ItemState(w, F, "ANS", 0, item) = "genuine"
    /\ \A x \in ProofOf(q, item) : ItemState(w, F, "ANS", 0, x) = "genuine"
    /\ Intact(w, F, w.n)

\* a negative answer may be handed back as authenticated (all of its records Secure)
NegSecureOk(w, F, q) ==
    /\ q \in {"nodata", "nx"} /\ w.signed[w.n] /\ Intact(w, F, w.n)
    /\ \A x \in Needed(q) : ItemState(w, F, "ANS", 0, x) = "genuine"

\* the un-faulted world: what a complete validator reports (used for witnesses only)
Best(w) == IF w.signed[w.n] /\ Intact(w, {}, w.n) THEN "Secure"
           ELSE IF InsecureOk(w, {}, w.n) THEN "Insecure" ELSE "Bogus"

\* per item of the final response and per response: is Secure / Insecure allowed
ItemNames == {"data", "cname", "inj", "soa", "nsecq", "nsecw"}
Allow(w, F, q) ==
    [x \in ItemNames |-> [sec |-> SecureOk(w, F, q, x), ins |-> InsecureOk(w, F, w.n)]]

\* an observation: obs = sequence of [x |-> item name, k |-> "rr" | "sig", p |-> proof] (one entry
\* per distinct proof seen on the records / RRSIGs of an item of the final response) and the
\* response class
\*   "answer"        a response with a non-empty answer section
\*   "neg-secure"    empty answer (NOERROR / NXDOMAIN) whose denying records (the authority section
\*                   without SOA and RRSIGs) are present and all Secure
\*   "neg-insecure"  empty answer accepted without such records (and without a Bogus record)
\*   "neg-bogus"     empty answer, some authority record Bogus
\*   "err-insecure"  the DNSSEC error carrying proof Insecure (served like neg-insecure)
\*   "err"           any other error (including an error RCODE handed through)
\* Bogus, Indeterminate and errors are always allowed: both clauses of the property are "only if".
ObservationOk(w, F, q, obs, class) ==
    /\ \A k \in 1..Len(obs) :
          /\ (obs[k].p = "Secure" => obs[k].x \in ItemNames /\ SecureOk(w, F, q, obs[k].x))
          /\ (obs[k].p = "Insecure" => InsecureOk(w, F, w.n))
    /\ (class = "neg-secure" => NegSecureOk(w, F, q))
    /\ (class \in {"neg-insecure", "err-insecure"} => InsecureOk(w, F, w.n))

\* what a server in front of the validator hands to a client (property: "the server sets AD" only
\* for Secure data, "SERVFAIL to CD=0 clients" on Bogus; RFC 4035 3.2.2, 3.2.3):
\*   cd      the client's CD bit;  rcode, ad: RCODE and AD bit of the response;
\*   ans     sequence of the items whose records are in its answer section
\* AD: every RRset of the answer (the denial, for an empty answer) may be Secure.
\* CD = 0 and no error RCODE: everything in the answer may be Secure or Insecure, i.e. nothing
\* that ought to have been Bogus is handed out; an empty answer is an authenticated or a
\* provably insecure denial.  An error RCODE is always allowed; with CD = 1 anything but AD is.
ServedOk(w, F, q, cd, rcode, ad, ans) ==
    LET ok == rcode \in {"NOERROR", "NXDOMAIN"} IN
    /\ ad => /\ ok
             /\ IF Len(ans) > 0 THEN \A k \in 1..Len(ans) : ans[k] \in ItemNames /\ SecureOk(w, F, q, ans[k])
                ELSE NegSecureOk(w, F, q)
    /\ (ok /\ ~cd) =>
             IF Len(ans) > 0
             THEN \A k \in 1..Len(ans) : ans[k] \in ItemNames /\ (SecureOk(w, F, q, ans[k]) \/ InsecureOk(w, F, w.n))
             ELSE NegSecureOk(w, F, q) \/ InsecureOk(w, F, w.n)

\* diagnosis for reports (never used to judge): what the un-faulted world allows, and which
\* single faults of F each forbid it on their own
Diagnosis(w, F, q) ==
    [base  |-> [sec |-> [x \in ItemNames |-> SecureOk(w, {}, q, x)], ins |-> InsecureOk(w, {}, w.n),
                neg |-> NegSecureOk(w, {}, q)],
     blame |-> [sec |-> [x \in ItemNames |-> {f \in F : ~SecureOk(w, {f}, q, x)}],
                ins |-> {f \in F : ~InsecureOk(w, {f}, w.n)},
                neg |-> {f \in F : ~NegSecureOk(w, {f}, q)}]]

\* -------------------------------------------------------------------------
\* the faults that make sense in a world (used by the MC and Gen configurations; the monitor
\* accepts any fault list).  Only items of signed zones are worth tampering with: below an
\* insecure cut nothing is authenticated anyway.
Flt(resp, z, item, op) == [resp |-> resp, z |-> z, item |-> item, op |-> op]
TwoKeyOps(w, zone) == IF w.keys[zone] = 2 THEN {"dropSig1", "dropSig2"} ELSE {}

AnsFaults(w, q) ==
    (IF ~w.signed[w.n] THEN {}
     ELSE IF q = "pos"
     THEN {Flt("ANS", 0, "data", op) : op \in {"dropSig", "sigBit", "alter", "addRec", "forge", "forgeEvil", "forgeIsland", "dropSet"}
                                              \cup TwoKeyOps(w, w.n)}
     ELSE IF q = "cname"
     \* (the target RRset is not dropped: a resolver would simply ask for it again)
     THEN {Flt("ANS", 0, "data", op) : op \in {"dropSig", "sigBit", "alter", "forge", "wildSub", "wildSubSwap"} \cup TwoKeyOps(w, w.n)}
          \cup {Flt("ANS", 0, "cname", op) : op \in {"dropSig", "alter", "forge", "dropSet"}}
     ELSE IF q = "wild"
     THEN {Flt("ANS", 0, x, op) : x \in {"data", "nsecq"}, op \in {"dropSig", "alter", "forge", "dropSet"} \cup TwoKeyOps(w, w.n)}
     ELSE {Flt("ANS", 0, x, op) : x \in AnsItems(w, q) \ {"soa"},
                                  op \in {"dropSig", "alter", "forge", "forgeEvil", "forgeIsland", "dropSet"} \cup TwoKeyOps(w, w.n)}
          \cup {Flt("ANS", 0, "soa", op) : op \in {"dropSig", "alter", "dropSet"}})
    \cup {Flt("ANS", 0, "inj", "inject"), Flt("ANS", 0, "msg", "dropMsg")}

KeyFaults(w, q) ==
    (IF w.signed[w.n] /\ q = "pos" THEN {Flt("KEY", w.n, "dnskey", "childKeyVouches")} ELSE {}) \cup
    UNION {{Flt("KEY", z, "dnskey", op) : op \in {"dropSig", "sigBit", "alter", "addRec", "swapKey", "dropSet"} \cup TwoKeyOps(w, z)}
           \cup {Flt("KEY", z, "msg", "dropMsg")} : z \in {i \in 1..w.n : w.signed[i]}}

DsFaults(w, q) ==
    UNION {(IF "ds" \in DsItems(w, z)
            THEN {Flt("DS", z, "ds", op) : op \in {"dropSig", "sigBit", "alter", "addRec", "forge", "forgeEvil", "dropSet"} \cup TwoKeyOps(w, z - 1)}
                 \cup (IF w.link[z] \in {"dsmixed", "dsunsup"} THEN {Flt("DS", z, "ds", "reorder")} ELSE {})
                 \cup (IF z = w.n /\ w.signed[z] /\ q = "pos" THEN {Flt("DS", z, "ds", "foreignDs")} ELSE {})
                 \cup (IF w.signed[z] THEN {Flt("DS", z, "msg", "childSide")} ELSE {})
            ELSE {Flt("DS", z, "nsecds", op) : op \in {"dropSig", "alter", "forge", "forgeEvil", "dropSet"} \cup TwoKeyOps(w, z - 1)}
                 \cup {Flt("DS", z, "soa", op) : op \in {"dropSig", "dropSet"}})
           \cup {Flt("DS", z, "msg", "dropMsg")} : z \in {i \in 2..w.n : w.signed[i - 1]}}

\* (NS, 1, inj): a forged NS RRset in the zone-cut look-up at the injected name
NsFaults(w) == {Flt("NS", 0, "ns", "inject"), Flt("NS", 1, "inj", "inject")} \cup {Flt("NS", z, "ns", "dropSet") : z \in 2..w.n}

ApplicableFaults(w, q) == AnsFaults(w, q) \cup KeyFaults(w, q) \cup DsFaults(w, q) \cup NsFaults(w)
=============================================================================
