SPECIFICATION JTraceSpec
POSTCONDITION Consumed
CHECK_DEADLOCK FALSE
