----------------------------- MODULE Trace_Nsec -----------------------------
(* Trace validation for C08 (obligation T: impl -> spec), monitor style.      *)
(* Events recorded from the real code (harness/src/bin/drive_nsec):           *)
(*   reset   case, apex, zone=[{n, ty}]      start of a case: the zone        *)
(*   verify  origin, q, t, kind, ce, soa, proof=[{owner,next,types}], verdict *)
(*       origin = "forged"      records picked by the driver (any mixture);   *)
(*                              verdict = what verify_nsec said               *)
(*       origin = "forged-full" a forged response run through the whole       *)
(*                              validator with real signatures (records with  *)
(*                              exp = TRUE: a wildcard's NSEC + RRSIG renamed *)
(*                              to an expanded owner); verdict = DnssecDns-   *)
(*                              Handle's                                      *)
(*       origin = "prescribed"  the proof RFC 4035 3.1.3 prescribes (computed *)
(*                              by TLC in Gen_Nsec); verdict = verify_nsec    *)
(*       origin = "server"      kind/ce/soa/proof are what hickory-dns' own   *)
(*                              signed zone attached to its response;         *)
(*                              verdict = verify_nsec on exactly these,       *)
(*                              full = verdict of DnssecDnsHandle             *)
(*   kind = "wild": ce is the wildcard parent named by the RRSIG of the        *)
(*   answered RRset; riders = further RRsets in the answer section expanded   *)
(*   from other wildcards of the zone (not part of the claim, see NsecOps).    *)
(* Every verify event is judged on its own with the operators of NsecOps:     *)
(*   soundness     verdict = Secure  =>  Entails(proof, q, t, kind, ce)       *)
(*   completeness  prescribed / server proof of a negative or wildcard        *)
(*                 response  =>  verdict = Secure (and full = Secure);        *)
(*                 server's positive answer (incl. followed in-zone aliases)  *)
(*                 with whatever NSEC it attached  =>  full = Secure          *)
(* A rejected event prints one MISMATCH line that also says which single      *)
(* dropped clause of the RFC reading would explain an unsound acceptance.     *)
EXTENDS NsecOps, TLC, Json, IOUtils, FiniteSets

Rec == ndJsonDeserialize(IOEnv.TRACE)

VARIABLES l,        \* next line of Rec
          apex,     \* current case: apex name
          zone,     \* current case: function owner -> type set (empty function if not given)
          cid       \* current case id

tvars == <<l, apex, zone, cid>>

SetOf(s) == { s[i] : i \in DOMAIN s }
ZoneOf(zs) ==
    LET names == { zs[i].n : i \in DOMAIN zs } IN
    [ n \in names |-> UNION { SetOf(zs[i].ty) : i \in { j \in DOMAIN zs : zs[j].n = n } } ]
ProofOf(ps) == { [owner |-> ps[i].owner, next |-> ps[i].next, types |-> SetOf(ps[i].types),
                   exp |-> ("exp" \in DOMAIN ps[i] /\ ps[i].exp)] : i \in DOMAIN ps }

Init == l = 1 /\ apex = <<>> /\ zone = <<>> /\ cid = "none"

e == Rec[l]

Reset ==
    /\ e.ev = "reset"
    /\ apex' = e.apex /\ zone' = ZoneOf(e.zone) /\ cid' = e.case

InScope(ev) == ev.kind \in {"nxdomain", "nodata", "wild"}
HasZone == apex \in DOMAIN zone

PofE(ev)  == ProofOf(ev.proof)
EntE(ev)  == InScope(ev) /\ Entails(PofE(ev), ev.q, ev.t, ev.kind, ev.ce)
OpenE(ev) == InScope(ev) /\ OpenDsCase(PofE(ev), ev.q, ev.t, ev.kind)
\* what the zone's authoritative server has to say about <q, t> (server events only)
SkE(ev)   == IF ev.origin = "server" /\ HasZone THEN ServerKind(zone, apex, ev.q, ev.t) ELSE "none"

\* C08 soundness: accepted only if entailed (also for the verdict of the whole validator)
SoundE(ev) ==
    /\ (ev.verdict = "Secure" /\ InScope(ev)) => (EntE(ev) \/ OpenE(ev))
    /\ (ev.origin = "server" /\ InScope(ev) /\ ev.full = "Secure" /\ Len(ev.proof) > 0) => (EntE(ev) \/ OpenE(ev))
\* C08 completeness: the prescribed proof, and the proof hickory's own server attached to a
\* response that has to be negative or wildcard-expanded, are accepted
\* ... and so is whatever it attaches to a positive answer ("for every query"): a response that has
\* to be a plain answer (data or an alias at the name, followed inside the zone or not) validates
CompleteE(ev) ==
    CASE ev.origin = "prescribed" -> ev.verdict = "Secure"
      [] ev.origin = "server" /\ SkE(ev) # "none" -> ev.verdict = "Secure" /\ ev.full = "Secure"
      [] ev.origin = "server" /\ HasZone /\ Lookup(zone, apex, ev.q, ev.t) = "answer" -> ev.full = "Secure"
      [] OTHER -> TRUE
OkE(ev) == ev.verdict # "PANIC" /\ SoundE(ev) /\ CompleteE(ev)

\* explanation of a rejected event (evaluated only then)
Explain(ev) ==
    LET P == PofE(ev)
        singles == IF SoundE(ev) THEN {} ELSE ExplainedBy(P, ev.q, ev.t, ev.kind, ev.ce, ev.soa)
        pairs   == IF SoundE(ev) \/ singles # {} THEN {}
                   ELSE { S \in SUBSET LaxRules : Cardinality(S) = 2 /\ EntailsX(P, ev.q, ev.t, ev.kind, ev.ce, S, ev.soa) }
    IN  [sound |-> SoundE(ev), complete |-> CompleteE(ev), entails |-> EntE(ev), expectedKind |-> SkE(ev),
         lookup |-> IF HasZone THEN Lookup(zone, apex, ev.q, ev.t) ELSE "n/a",
         ent |-> HasZone /\ ev.q \notin DOMAIN zone /\ Exists(zone, apex, ev.q),
         usesLast |-> \E r \in P : IsLast(r),
         qChildOfCe |-> ev.kind = "wild" /\ Len(ev.q) = Len(ev.ce) + 1,
         noProof |-> Len(ev.proof) = 0,
         qAbsentProven |-> \E r \in P : ProvesAbsent(r, ev.q, {}, <<>>),
         explainedBy |-> singles, explainedByPairs |-> pairs,
         explainedByAll |-> IF SoundE(ev) THEN FALSE ELSE ExplainedByAll(P, ev.q, ev.t, ev.kind, ev.ce, ev.soa)]

Check ==
    /\ e.ev = "verify"
    /\ \/ OkE(e)
       \/ ~OkE(e) /\ PrintT(<<"MISMATCH", ToJson([case |-> cid, line |-> l, event |-> e, judge |-> Explain(e)])>>)
    /\ UNCHANGED <<apex, zone, cid>>

(* Audit of the published chain (event "chain": every NSEC record of the signed *)
(* zone): it must be the chain the specification derives from the zone         *)
(* (NsecOps.Chain).  The judgements above take published records as genuine    *)
(* facts about the zone.                                                       *)
ChainPub(ev) == { [owner |-> ev.published[i].owner, next |-> ev.published[i].next,
                   types |-> SetOf(ev.published[i].types)] : i \in DOMAIN ev.published }
ChainCheck ==
    /\ e.ev = "chain" /\ HasZone
    /\ LET pub == ChainPub(e)
           exp == Chain(zone, apex)
           missing == exp \ pub
           extra   == pub \ exp IN
       \/ missing = {} /\ extra = {}
       \/ ~(missing = {} /\ extra = {}) /\
          PrintT(<<"MISMATCH", ToJson([case |-> cid, line |-> l, event |-> [ev |-> "chain", origin |-> "audit"],
                                       judge |-> [missing |-> missing, extra |-> extra]])>>)
    /\ UNCHANGED <<apex, zone, cid>>

Next == l <= Len(Rec) /\ l' = l + 1 /\ (Reset \/ Check \/ ChainCheck)

TraceSpec == Init /\ [][Next]_tvars

Consumed ==
    LET d == TLCGet("stats").diameter IN
    IF d - 1 = Len(Rec) THEN PrintT(<<"TRACE-CONSUMED", Len(Rec)>>)
    ELSE PrintT(<<"TRACE-STUCK", d, Len(Rec)>>) /\ FALSE
=============================================================================
