---------------------------- MODULE MC_Update ----------------------------
(* Exhaustive configurations for Update (C12, obligation D).               *)
(*  MC_Update_step   inductive step: ONE message, every message of the     *)
(*                   universe, from EVERY well-formed zone over the        *)
(*                   universe (so the invariants hold for histories of any *)
(*                   length), serials 10 and 2^32 - 1                      *)
(*  MC_Update_hist   histories of <= 3 messages from one concrete zone     *)
(*                   (state carried from message to message)               *)
EXTENDS Update, TLC

CONSTANTS Owners    \* in-zone owner names of the universe

AP == <<"example", "com">>
NA == <<"a">> \o AP
NB == <<"b">> \o AP
OUT == <<"a", "example", "org">>
Owners2 == {AP, NA}
Owners3 == {AP, NA, NB}

RR(o, c, t, ttl, rd) == [o |-> o, c |-> c, t |-> t, ttl |-> ttl, rd |-> rd, ser |-> <<0, 0>>]
SOARR(o, c, ttl, s)  == [o |-> o, c |-> c, t |-> "SOA", ttl |-> ttl, rd |-> (IF c = "IN" THEN 1 ELSE 0), ser |-> s]

DataT  == {"A", "NS", "CNAME"}
Rds    == {1, 2}

\* ---- every well-formed zone over the universe
AllRRs == {<<o, t, rd>> : o \in Owners, t \in DataT, rd \in Rds}
MC_AllZones == {Z \cup {<<AP, "SOA", 0>>} : Z \in {Y \in SUBSET AllRRs : WellFormed(Y \cup {<<AP, "SOA", 0>>}, AP)}}
MC_OneZone  == {{<<AP, "SOA", 0>>, <<AP, "NS", 1>>, <<AP, "NS", 2>>, <<NA, "A", 1>>}}
MC_Sers     == {<<0, 10>>, <<65535, 65535>>}
MC_OneSer   == {<<0, 10>>}

\* ---- messages: every form of the tables 3.2.4 / 3.4.2.6 over the universe, plus representatives
\* of every malformed form sections 3.2 and 3.4.1 test for
AddRRs  == {RR(o, "IN", t, 300, rd) : o \in Owners, t \in DataT, rd \in Rds}
           \cup {SOARR(AP, "IN", 300, <<0, 5>>), SOARR(AP, "IN", 300, <<0, 20>>), SOARR(NA, "IN", 300, <<0, 20>>)}
DelSets == {RR(o, "ANY", t, 0, 0) : o \in Owners, t \in DataT \cup {"ANY", "SOA"}}
DelRRs  == {RR(o, "NONE", t, 0, rd) : o \in Owners, t \in DataT, rd \in Rds}
           \cup {SOARR(AP, "NONE", 0, <<0, 0>>), SOARR(NA, "NONE", 0, <<0, 0>>)}
BadUpd  == {RR(OUT, "IN", "A", 300, 1), RR(NA, "CH", "A", 0, 1), RR(NA, "IN", "ANY", 0, 0),
            RR(NA, "ANY", "A", 300, 0), RR(NA, "ANY", "A", 0, 1), RR(NA, "ANY", "AXFR", 0, 0),
            RR(NA, "NONE", "A", 300, 1), RR(NA, "NONE", "ANY", 0, 0), RR(NA, "IN", "AXFR", 0, 0),
            RR(NA, "IN", "A", 300, 0)}      \* zone class, RDLENGTH 0: refused or added as it is
UpdRRs  == AddRRs \cup DelSets \cup DelRRs \cup BadUpd

PreRRs  == {RR(o, c, t, 0, 0) : o \in Owners, c \in {"ANY", "NONE"}, t \in DataT \cup {"ANY", "SOA"}}
           \cup {RR(o, "IN", t, 0, rd) : o \in Owners, t \in {"A", "NS"}, rd \in Rds}
           \cup {RR(OUT, "ANY", "ANY", 0, 0), RR(NA, "ANY", "A", 300, 0), RR(NA, "NONE", "A", 0, 1),
                 RR(NA, "CH", "A", 0, 1), RR(NA, "IN", "A", 300, 1)}

Msgs1  == {[pre |-> p, upd |-> u] : p \in {<<>>} \cup {<<x>> : x \in PreRRs}, u \in {<<x>> : x \in UpdRRs}}
Msgs2  == {[pre |-> <<>>, upd |-> <<x, y>>] : x \in UpdRRs, y \in UpdRRs}
Msgs2p == {[pre |-> <<p, q>>, upd |-> <<RR(NA, "IN", "A", 300, 2)>>] : p \in PreRRs, q \in PreRRs}
MC_MsgsAll   == Msgs1 \cup Msgs2 \cup Msgs2p
MC_MsgsHist  == Msgs1 \cup Msgs2p
\* quick: two update RRs only from the well-formed forms at the non-apex owner, fewer start zones
AtNA   == {z \in AddRRs \cup DelSets \cup DelRRs : z.o = NA}
Msgs2q == {[pre |-> <<>>, upd |-> <<x, y>>] : x \in AtNA, y \in AtNA}
MC_MsgsQuick == Msgs1 \cup Msgs2q
MC_SomeZones == {Z \in MC_AllZones : Cardinality({r \in Z : r[1] = NA}) <= 2 /\ <<AP, "A", 2>> \notin Z}
=============================================================================
