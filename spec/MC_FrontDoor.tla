---------------------------- MODULE MC_FrontDoor ----------------------------
(* Exhaustive configurations for FrontDoor (C11, obligation D): every        *)
(* combination of request attributes x catalogs with nested / sibling / root *)
(* zones x handler chains x allow / deny lists.                              *)
EXTENDS FrontDoor

z == 122  a == 97  b == 98  o == 111  x == 120
ZRoot == <<>>
ZZ == <<z>>  ZA == <<a, z>>  ZBA == <<b, a, z>>  ZO == <<o>>

P(oct, len) == [a |-> oct, len |-> len]
P0 == P(<<0, 0, 0, 0>>, 0)  P8 == P(<<10, 0, 0, 0>>, 8)  P16 == P(<<10, 0, 0, 0>>, 16)  P24 == P(<<10, 0, 0, 0>>, 24)
Src1 == <<10, 0, 0, 1>>  Src2 == <<10, 1, 0, 1>>  Src3 == <<192, 0, 2, 1>>

Cfg(os, ch, al, dn) == [origins |-> os, chain |-> [og \in os |-> ch], allow |-> al, deny |-> dn]

OriginSets == {{ZZ}, {ZZ, ZA}, {ZRoot, ZA}, {ZZ, ZO}, {ZZ, ZA, ZBA}, {ZA, ZO}}
Chains     == {<<"C">>, <<"B">>, <<"S", "C">>, <<"B", "C">>, <<"C", "B">>, <<"S", "S">>, <<"S", "B">>, <<"C", "C">>}
Acls       == {<<{}, {}>>, <<{}, {P8}>>, <<{P16}, {P8}>>, <<{P16}, {}>>, <<{P16}, {P16}>>, <<{P8}, {P16}>>, <<{P24, P0}, {P16}>>}

MC_Configs  == {Cfg(os, ch, ac[1], ac[2]) : os \in OriginSets, ch \in Chains, ac \in Acls}
MCQ_Configs == {Cfg(os, ch, ac[1], ac[2]) : os \in {{ZZ, ZA}, {ZRoot, ZA}, {ZA, ZO}}, ch \in {<<"C", "B">>, <<"S", "B">>, <<"B", "C">>, <<"S", "S">>},
                                             ac \in {<<{}, {}>>, <<{P16}, {P8}>>, <<{P16}, {P16}>>}}

\* incl. a leading "*" directly below an origin, a "*" in the middle, a 63-octet label (1000 + c)
QNs == {<<x, a, z>>, ZZ, <<x, o>>, <<x, b, a, z>>, <<42, a, z>>, <<x, 42, z>>, <<1120, b, a, z>>, <<42>>}
\* messages that are too short or are responses: the remaining attributes do not matter much
Dropped(ops) ==
    [short : {TRUE}, qr : BOOLEAN, op : {0}, qd : {0}, qok : {FALSE}, body : {"ok"}, edns : {"none"}, src : {Src1, Src2},
     qname : {ZZ}, loose : {FALSE}]
    \cup [short : {FALSE}, qr : {TRUE}, op : ops, qd : 0..1, qok : BOOLEAN, body : {"ok", "bad"}, edns : {"none", "v1"},
          src : {Src1, Src2}, qname : {<<x, a, z>>}, loose : {FALSE}]
MC_Requests ==
    Dropped({0, 5, 7, 13})
    \cup [short : {FALSE}, qr : {FALSE}, op : {0, 5, 4, 2, 1, 7, 8, 13, 15}, qd : 0..2, qok : BOOLEAN, body : {"ok", "bad", "unknown"},
          edns : {"none", "v0", "v1", "unknown"}, src : {Src1, Src2, Src3}, qname : QNs, loose : BOOLEAN]
MCQ_Requests ==
    Dropped({0, 7})
    \cup [short : {FALSE}, qr : {FALSE}, op : {0, 5, 4, 7, 13}, qd : 0..2, qok : BOOLEAN, body : {"ok", "bad", "unknown"},
          edns : {"none", "v1"}, src : {Src1, Src2}, qname : {<<42, a, z>>, ZZ, <<x, o>>}, loose : {FALSE}]
=============================================================================
