----------------------------- MODULE Gen_Access -----------------------------
(* Exhaustive case generator for the address filter (C19_Filters, obligation *)
(* R): every address of a small universe -- IPv4, the IPv6 loopback and      *)
(* unspecified address, IPv4-mapped and IPv4-compatible forms, global IPv6 -- *)
(* against every deny list of up to MaxDeny networks (plus a few longer,     *)
(* typical ones) and every allow list of up to MaxAllow networks, with the   *)
(* verdict AccessOps!Denied prescribes.  Replayed against the real           *)
(* AccessControlSet::denied.                                                 *)
EXTENDS AccessOps, TLC, Json

CONSTANTS MaxDeny, MaxAllow
VARIABLE case

Z(n) == [i \in 1..n |-> 0]
Tail4(a, b, c, d) == Z(12) \o <<a, b, c, d>>                       \* ::a.b.c.d (IPv4-compatible)
Mapped(a, b, c, d) == Z(10) \o <<255, 255, a, b, c, d>>            \* ::ffff:a.b.c.d
Global(x, y) == <<32, 1, 13, x>> \o Z(11) \o <<y>>                 \* 2001:dXX::y

Addrs ==
    {V4(127, 0, 0, 1), V4(10, 0, 0, 1), V4(10, 1, 2, 3), V4(0, 0, 0, 1), V4(0, 0, 0, 0), V4(192, 0, 2, 1),
     V4(172, 16, 5, 5), V4(172, 32, 0, 1), V4(11, 0, 0, 4),
     V6(Tail4(0, 0, 0, 1)), V6(Tail4(0, 0, 0, 0)), V6(Tail4(10, 0, 0, 1)), V6(Tail4(127, 0, 0, 1)),
     V6(Mapped(10, 0, 0, 1)), V6(Mapped(127, 0, 0, 1)), V6(Mapped(0, 0, 0, 1)), V6(Mapped(192, 0, 2, 1)),
     V6(Global(184, 1)), V6(Global(185, 1)), V6(<<254, 128>> \o Z(13) \o <<1>>)}
Nets ==
    {Pfx(V4(127, 0, 0, 0), 8), Pfx(V4(0, 0, 0, 0), 8), Pfx(V4(10, 0, 0, 0), 8), Pfx(V4(10, 0, 0, 1), 32),
     Pfx(V4(172, 16, 0, 0), 12), Pfx(V4(0, 0, 0, 0), 0), Pfx(V4(192, 0, 2, 0), 24),
     Pfx(V6(Tail4(0, 0, 0, 1)), 128), Pfx(V6(Tail4(0, 0, 0, 0)), 128), Pfx(V6(Z(16)), 96),
     Pfx(V6(Mapped(0, 0, 0, 0)), 96), Pfx(V6(Mapped(10, 0, 0, 0)), 104), Pfx(V6(Global(184, 0)), 32),
     Pfx(V6(Z(16)), 0)}
UpTo(S, k) == {x \in SUBSET S : Cardinality(x) <= k}
\* typical longer lists: loopback and unspecified of both families; RFC 1918 plus loopback
Typical ==
    {{Pfx(V4(127, 0, 0, 0), 8), Pfx(V6(Tail4(0, 0, 0, 1)), 128), Pfx(V6(Tail4(0, 0, 0, 0)), 128)},
     {Pfx(V4(127, 0, 0, 0), 8), Pfx(V4(0, 0, 0, 0), 8), Pfx(V6(Tail4(0, 0, 0, 1)), 128), Pfx(V6(Tail4(0, 0, 0, 0)), 128)},
     {Pfx(V4(10, 0, 0, 0), 8), Pfx(V4(172, 16, 0, 0), 12), Pfx(V4(127, 0, 0, 0), 8), Pfx(V6(Global(184, 0)), 32)}}

Cases ==
    {[addr |-> a, acs |-> [allow |-> al, deny |-> d]] :
        a \in Addrs, d \in UpTo(Nets, MaxDeny) \cup Typical, al \in UpTo(Nets, MaxAllow)}

Init == case \in {c \in Cases : c.acs.deny # {} \/ c.acs.allow = {}}   \* an allow list needs a deny list to override
Next == UNCHANGED case
Spec == Init /\ [][Next]_case

Emit == PrintT(<<"REPLAY", ToJson([addr |-> case.addr, acs |-> case.acs, denied |-> Denied(case.acs, case.addr)])>>)
=============================================================================
