------------------------------- MODULE MC_Nsec -------------------------------
(* Exhaustive configurations for Nsec (C08, obligation D).  Scopes: see      *)
(* NsecScopes; configurations: MC_Nsec.cfg (quick), MC_Nsec_thorough.cfg,    *)
(* MC_Nsec_star.cfg (wildcards as empty non-terminals), MC_Nsec_lemmas.cfg.  *)
EXTENDS Nsec, NsecScopes
=============================================================================
