\* C09 obligation D, thorough: 12 further hash orders of the name universe
SPECIFICATION Spec
CONSTANTS
  Apex <- MC_Apex
  Universe <- Q_Universe6
  PlainKinds <- MC_PlainKinds
  WildKinds <- MC_WildKinds
  MaxOwners = 1
  QNames <- Q_QNames10
  QTypes <- T3_QTypes
  MaxProof = 3
  HT <- O3_HT
  Params <- O3_Params
  StaleParams = {}
  OptOuts = {FALSE, TRUE}
  ParentZone <- NoParent
  Soft <- MC_Soft
  Hard <- MC_Hard
INVARIANTS TypeOK C09_Complete C09_CompleteOptOut C09_Sound C09_IterationLimits C09_SameParamsSameZone
CHECK_DEADLOCK FALSE
