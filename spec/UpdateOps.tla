----------------------------- MODULE UpdateOps -----------------------------
(* RFC 2136 (Dynamic Updates in the DNS), sections 3.2 - 3.4, and the zone    *)
(* well-formedness requirements of property C12, as pure operators.           *)
(* Constant-free: shared by Update (machine), MC_/Gen_/Trace_Update and by    *)
(* Journal / Trace_Journal (C14).                                             *)
(*                                                                            *)
(* Written from the RFC text and the property statement.  Two independent     *)
(* formulations of section 3.4.2 are given -- the pseudocode of 3.4.2.7       *)
(* (PseudoRR) and the prose of 3.4.2.2 - 3.4.2.4 (ProseRR); TLC checks in     *)
(* MC_Update that they agree except at the one place where the RFC's prose    *)
(* and pseudocode really differ (RfcAmbiguous), and the conformance checks    *)
(* accept either reading exactly there.                                       *)
(*                                                                            *)
(* Data:                                                                      *)
(*   name     sequence of labels (strings, already folded to lower case),     *)
(*            leftmost label first: <<"a", "example", "com">>                 *)
(*   zone RR  <<owner, type, rd>>  rd = index into the rdata universe of the  *)
(*            type (>= 1).  Class is the zone class; TTL is not modelled.     *)
(*            An SOA RR is <<owner, "SOA", 0>>; the serial of the apex SOA    *)
(*            is carried separately (32-bit arithmetic needs pairs).          *)
(*   state    [rrs |-> set of zone RRs, ser |-> serial (Serial.tla pair)]     *)
(*   msg RR   [o, c, t, ttl, rd, ser]  c \in {"IN" (= zone class), "ANY",     *)
(*            "NONE", other}; rd = 0 is empty RDATA (RDLENGTH 0); ser is the  *)
(*            SOA serial carried by a type SOA RR (<<0,0>> otherwise)         *)
(*   message  [pre |-> seq of msg RR, upd |-> seq of msg RR]                  *)
EXTENDS Naturals, Sequences, FiniteSets, Serial

ZCLASS == "IN"
\* QUERY meta types (RFC 2136 3.4.1.2: "ANY, AXFR, MAILA, MAILB, or any other QUERY metatype")
MetaTypes == {"ANY", "AXFR", "IXFR", "MAILA", "MAILB"}

\* RFC 2136 1.2 / RFC 1034: n is in the zone iff it is the apex or a descendant of it.
\* (Delegated subtrees are still "within the zone" for ZNAME matching: zone_of(name) = ZNAME
\* is decided on names only.)
InZone(n, apex) ==
    /\ Len(n) >= Len(apex)
    /\ SubSeq(n, Len(n) - Len(apex) + 1, Len(n)) = apex

AtName(rrs, o)    == {r \in rrs : r[1] = o}
RRsetOf(rrs, o, t) == {r \in rrs : r[1] = o /\ r[2] = t}

\* "zone_name<name>": at least one RR with that NAME
NameInUse(S, o) == AtName(S.rrs, o) # {}
\* "zone_rrset<name, type>"
RRsetExists(S, o, t) == RRsetOf(S.rrs, o, t) # {}

-----------------------------------------------------------------------------
(* 3.2  Prerequisite section.                                                *)
(* PrereqErrors = every RCODE that some prerequisite entitles the server to  *)
(* signal.  The RFC's pseudocode fixes an order of tests; the property does  *)
(* not, so when several prerequisites fail any of their codes is accepted.   *)
(* Within one RR, form errors (3.2.1-3.2.3: TTL, RDLENGTH, class; 3.2:       *)
(* NOTZONE) come before the tests against the zone content.                  *)

PreFormErrors(rr, apex) ==
    (IF rr.ttl # 0 THEN {"FORMERR"} ELSE {})
    \cup (IF ~InZone(rr.o, apex) THEN {"NOTZONE"} ELSE {})
    \cup (IF rr.c \in {"ANY", "NONE"} /\ rr.rd # 0 THEN {"FORMERR"} ELSE {})
    \cup (IF rr.c \notin {"ANY", "NONE", ZCLASS} THEN {"FORMERR"} ELSE {})

\* 3.2.1, 3.2.2 (value independent forms)
PreZoneErrors(S, rr, apex) ==
    IF rr.c = "ANY" THEN
        IF rr.t = "ANY" THEN (IF NameInUse(S, rr.o) THEN {} ELSE {"NXDOMAIN"})
        ELSE (IF RRsetExists(S, rr.o, rr.t) THEN {} ELSE {"NXRRSET"})
    ELSE IF rr.c = "NONE" THEN
        IF rr.t = "ANY" THEN (IF NameInUse(S, rr.o) THEN {"YXDOMAIN"} ELSE {})
        ELSE (IF RRsetExists(S, rr.o, rr.t) THEN {"YXRRSET"} ELSE {})
    ELSE {}

\* 3.2.3 (value dependent): build an RRset per <NAME, TYPE> from the ZCLASS prerequisites and
\* compare for set equality with the zone RRset.
PreValueKeys(pre, apex) ==
    {<<pre[i].o, pre[i].t>> : i \in {j \in 1..Len(pre) : pre[j].c = ZCLASS /\ PreFormErrors(pre[j], apex) = {}}}
PreValueSet(pre, k, apex) ==
    {<<pre[i].o, pre[i].t, pre[i].rd>> :
        i \in {j \in 1..Len(pre) : pre[j].c = ZCLASS /\ PreFormErrors(pre[j], apex) = {}
                                   /\ pre[j].o = k[1] /\ pre[j].t = k[2]}}
PreValueMismatch(S, pre, apex) ==
    {k \in PreValueKeys(pre, apex) : PreValueSet(pre, k, apex) # RRsetOf(S.rrs, k[1], k[2])}
\* the prerequisite RRset is a proper, non-empty subset of the zone RRset: every listed RR is in
\* the zone but the zone RRset has more members.  RFC 2136 3.2.3 says NXRRSET; the property only
\* says against which zone prerequisites are judged, so the conformance checks accept both
\* verdicts at exactly this case (DESIGN.md section 4 C12, Adjudicate) and report it as an
\* observation.
PreValueSubsetOnly(S, pre, apex) ==
    /\ PreValueMismatch(S, pre, apex) # {}
    /\ \A k \in PreValueMismatch(S, pre, apex) :
          PreValueSet(pre, k, apex) \subseteq RRsetOf(S.rrs, k[1], k[2])

PrereqErrors(S, pre, apex) ==
    UNION {IF PreFormErrors(pre[i], apex) # {} THEN PreFormErrors(pre[i], apex)
           ELSE PreZoneErrors(S, pre[i], apex) : i \in 1..Len(pre)}
    \cup (IF PreValueMismatch(S, pre, apex) # {} THEN {"NXRRSET"} ELSE {})

\* TRUE iff the only reason to reject is the subset-vs-equality reading of 3.2.3
PrereqLenient(S, pre, apex) ==
    /\ PrereqErrors(S, pre, apex) = {"NXRRSET"}
    /\ PreValueSubsetOnly(S, pre, apex)
    /\ \A i \in 1..Len(pre) : PreFormErrors(pre[i], apex) = {} /\ PreZoneErrors(S, pre[i], apex) = {}

-----------------------------------------------------------------------------
(* 3.4.1  Prescan of the update section                                      *)
ScanErrors(rr, apex) ==
    (IF ~InZone(rr.o, apex) THEN {"NOTZONE"} ELSE {})
    \cup (IF rr.c = ZCLASS THEN (IF rr.t \in MetaTypes THEN {"FORMERR"} ELSE {})
          ELSE IF rr.c = "ANY" THEN
              (IF rr.ttl # 0 \/ rr.rd # 0 \/ rr.t \in (MetaTypes \ {"ANY"}) THEN {"FORMERR"} ELSE {})
          ELSE IF rr.c = "NONE" THEN
              (IF rr.ttl # 0 \/ rr.t \in MetaTypes THEN {"FORMERR"} ELSE {})
          ELSE {"FORMERR"})

PrescanErrors(upd, apex) == UNION {ScanErrors(upd[i], apex) : i \in 1..Len(upd)}

\* An update RR of the zone class with RDLENGTH 0 (rd = 0) that is not a meta type.  It is none of
\* the forms of table 3.4.2.6; the prescan of 3.4.1 does not test RDLENGTH for the zone class and
\* 3.4.2.2 literally adds the RR (empty RDATA).  The property is silent: a server may refuse the
\* message with FORMERR (then nothing changes, like any prescan failure) or add the RR as it is --
\* both are accepted, exactly for such messages.  What it may not do is answer FORMERR and keep a
\* part of the update, in memory or in its journal (C14).
EmptyAdd(rr)     == rr.c = ZCLASS /\ rr.rd = 0 /\ rr.t \notin MetaTypes /\ rr.t # "SOA"
HasEmptyAdd(upd) == \E i \in 1..Len(upd) : EmptyAdd(upd[i])

-----------------------------------------------------------------------------
(* 3.4.2  Update section, one RR at a time.  Both operators are total on RRs *)
(* that passed the prescan.                                                  *)

HasCname(S, o)    == RRsetOf(S.rrs, o, "CNAME") # {}
HasNonCname(S, o) == \E r \in AtName(S.rrs, o) : r[2] # "CNAME"

\* --- formulation 1: the pseudocode of 3.4.2.7, line by line
PseudoRR(S, rr, apex) ==
    LET me == <<rr.o, rr.t, IF rr.t = "SOA" THEN 0 ELSE rr.rd>> IN
    IF rr.c = ZCLASS THEN
        IF rr.t = "CNAME" /\ HasNonCname(S, rr.o) THEN S                          \* next [rr]
        ELSE IF rr.t # "CNAME" /\ HasCname(S, rr.o) THEN S                        \* next [rr]
        ELSE IF rr.t = "SOA" THEN
            \* if (!zone_rrset<rr.name, SOA> || zone_rr<rr.name, SOA>.serial > rr.soa.serial)
            IF ~RRsetExists(S, rr.o, "SOA") \/ SerialGT(S.ser, rr.ser) THEN S     \* next [rr]
            ELSE [S EXCEPT !.ser = rr.ser]                                        \* zrr = rr
        ELSE IF rr.t = "CNAME" THEN                                               \* zrr = rr
            [S EXCEPT !.rrs = (S.rrs \ RRsetOf(S.rrs, rr.o, "CNAME")) \cup {me}]
        ELSE [S EXCEPT !.rrs = S.rrs \cup {me}]           \* zrr = rr, or zone_rrset += rr
    ELSE IF rr.c = "ANY" THEN
        IF rr.t = "ANY" THEN
            IF rr.o = apex THEN [S EXCEPT !.rrs = {r \in S.rrs : r[1] # rr.o \/ r[2] \in {"SOA", "NS"}}]
            ELSE [S EXCEPT !.rrs = {r \in S.rrs : r[1] # rr.o}]
        ELSE IF rr.o = apex /\ rr.t \in {"SOA", "NS"} THEN S                      \* next [rr]
        ELSE [S EXCEPT !.rrs = S.rrs \ RRsetOf(S.rrs, rr.o, rr.t)]
    ELSE \* NONE
        IF rr.t = "SOA" THEN S                                                    \* next [rr]
        ELSE IF rr.t = "NS" /\ RRsetOf(S.rrs, rr.o, "NS") = {me} THEN S           \* next [rr]
        ELSE [S EXCEPT !.rrs = S.rrs \ {me}]

\* --- formulation 2: the prose of 3.4.2.2, 3.4.2.3, 3.4.2.4
ProseRR(S, rr, apex) ==
    LET me == <<rr.o, rr.t, IF rr.t = "SOA" THEN 0 ELSE rr.rd>> IN
    CASE rr.c = ZCLASS ->
           \* 3.4.2.2: "In the case of a CNAME Update RR and a non-CNAME Zone RRset or vice
           \* versa, ignore the CNAME Update RR, otherwise replace the CNAME Zone RR"
           IF (rr.t = "CNAME" /\ HasNonCname(S, rr.o)) \/ (rr.t # "CNAME" /\ HasCname(S, rr.o))
           THEN S
           \* "If the TYPE is SOA and there is no Zone SOA RR, or the new SOA.SERIAL is lower
           \* (according to [RFC1982]) than or equal to the current Zone SOA RR's SOA.SERIAL,
           \* the Update RR is ignored."
           ELSE IF rr.t = "SOA"
           THEN IF RRsetExists(S, rr.o, "SOA") /\ SerialGT(rr.ser, S.ser)
                THEN [S EXCEPT !.ser = rr.ser] ELSE S
           \* "In case of duplicate RDATAs (which for SOA RRs is always the case ...) the Zone
           \* RR is replaced by Update RR"; CNAME: compare only NAME, CLASS, TYPE (1.1.5)
           ELSE [S EXCEPT !.rrs = {r \in S.rrs : ~(r[1] = rr.o /\ r[2] = rr.t
                                                    /\ (rr.t = "CNAME" \/ r[3] = rr.rd))} \cup {me}]
      [] rr.c = "ANY" ->
           \* 3.4.2.3: "all Zone RRs with the same NAME [and TYPE] are deleted, unless the NAME
           \* is the same as ZNAME in which case [neither] SOA or NS RRs will be deleted"
           [S EXCEPT !.rrs = {r \in S.rrs :
               ~(/\ r[1] = rr.o
                 /\ (rr.t = "ANY" \/ r[2] = rr.t)
                 /\ ~(rr.o = apex /\ r[2] \in {"SOA", "NS"}))}]
      [] OTHER ->
           \* 3.4.2.4: deleted "unless the NAME is the same as ZNAME and either the TYPE is SOA
           \* or the TYPE is NS and the matching Zone RR is the only NS remaining in the RRset"
           IF rr.o = apex /\ (rr.t = "SOA" \/ (rr.t = "NS" /\ RRsetOf(S.rrs, rr.o, "NS") = {me}))
           THEN S
           ELSE [S EXCEPT !.rrs = S.rrs \ {me}]

\* The places where prose and pseudocode of RFC 2136 prescribe different results (both results
\* are accepted there, and only there):
\*  (a) deleting, with class NONE, the only remaining NS RR of a name other than the apex
\*      (prose: deleted; pseudocode: kept);
\*  (b) an SOA whose serial is at distance 2^31 from the zone's: RFC 1982 leaves the comparison
\*      undefined (pseudocode: not greater, so replace; prose: not lower-or-equal ... either).
\*  (c) class NONE, type SOA at a name other than the apex (prose: an ordinary delete;
\*      pseudocode: skipped) -- differs only if such an SOA exists, i.e. never in a well-formed zone
RfcAmbiguous(S, rr, apex) ==
    \/ /\ rr.c = "NONE" /\ rr.t = "NS" /\ rr.o # apex
       /\ RRsetOf(S.rrs, rr.o, "NS") = {<<rr.o, rr.t, rr.rd>>}
    \/ /\ rr.c = ZCLASS /\ rr.t = "SOA" /\ SerialUndefined(S.ser, rr.ser)
    \/ /\ rr.c = "NONE" /\ rr.t = "SOA" /\ rr.o # apex

AllowedRR(S, rr, apex) == {PseudoRR(S, rr, apex), ProseRR(S, rr, apex)}

\* All end states of applying the update section in order; `t` records whether some single RR
\* changed the zone on the way (RFC 2136 3.6 "if any Update RR caused a zone change"), `c`
\* ("clean") whether every SOA the update installed was strictly greater (RFC 1982) than the
\* serial it replaced -- FALSE only if an SOA at the undefined distance 2^31 was installed, which
\* the pseudocode reading admits and the prose reading does not.
RECURSIVE ApplyFrom(_, _, _, _)
ApplyFrom(Ts, upd, i, apex) ==
    IF i > Len(upd) THEN Ts
    ELSE ApplyFrom(UNION {{[s |-> n, t |-> (T.t \/ n # T.s),
                            c |-> (T.c /\ (n.ser = T.s.ser \/ SerialGT(n.ser, T.s.ser)))]
                           : n \in AllowedRR(T.s, upd[i], apex)} : T \in Ts},
                   upd, i + 1, apex)
ApplyAll(S, upd, apex) == ApplyFrom({[s |-> S, t |-> FALSE, c |-> TRUE]}, upd, 1, apex)

-----------------------------------------------------------------------------
(* Whole message: the set of outcomes the specification allows.              *)
(*   rc    RCODE of the reply                                                *)
(*   rrs   zone RR set afterwards                                            *)
(*   adv   "no"   serial must be unchanged                                   *)
(*         "must" content changed: serial must have strictly advanced        *)
(*                (RFC 1982) and be >= floor (an SOA the update installed)   *)
(*         "may"  the message changed the zone on the way but the net        *)
(*                content is what it was (add x, delete x): RFC 2136 3.6     *)
(*                increments, "iff the content changed" does not; both pass  *)
(*   lenient  TRUE for an outcome that is accepted although the strict RFC   *)
(*         reading rejects it (see PreValueSubsetOnly)                       *)
Rejects(S, codes) == {[rc |-> c, rrs |-> S.rrs, adv |-> "no", floor |-> S.ser, clean |-> TRUE, lenient |-> FALSE] : c \in codes}

Accepts(S, m, apex, len) ==
    {[rc |-> "NOERROR", rrs |-> T.s.rrs,
      adv |-> IF T.s # S THEN "must" ELSE IF T.t THEN "may" ELSE "no",
      floor |-> T.s.ser, clean |-> T.c, lenient |-> len] : T \in ApplyAll(S, m.upd, apex)}

Outcomes(S, m, apex) ==
    LET pe == PrereqErrors(S, m.pre, apex)
        se == PrescanErrors(m.upd, apex)
        \* codes a rejection may carry: the prescan's, and FORMERR for an RR without RDATA
        sr == se \cup (IF HasEmptyAdd(m.upd) THEN {"FORMERR"} ELSE {})
    IN  IF pe # {} /\ ~PrereqLenient(S, m.pre, apex) THEN Rejects(S, pe \cup sr)
        ELSE IF pe # {} THEN
            \* lenient prerequisite: reject with NXRRSET, or go on as if satisfied
            Rejects(S, pe \cup sr) \cup (IF se # {} THEN {} ELSE Accepts(S, m, apex, TRUE))
        ELSE IF se # {} THEN Rejects(S, sr)
        ELSE Accepts(S, m, apex, FALSE) \cup Rejects(S, sr)

\* Does an observed reply / zone / serial realise outcome o from state S?
SerialFits(S, o, ser) ==
    CASE o.adv = "no"   -> ser = S.ser
      [] o.adv = "may"  -> ser = S.ser \/ SerialGT(ser, S.ser)
      \* "must": the content changed, the serial has to have strictly advanced.
      \*  * no SOA installed by the update (floor = old serial): ser > old, nothing else.
      \*  * the update installed an SOA (floor # old): ser >= floor, and against the old serial
      \*    - ser > old, or
      \*    - the distance is exactly 2^31, which RFC 1982 leaves undefined ("advanced" cannot be
      \*      refuted: an installed serial 2^31 - 1 ahead plus the server's own increment), or
      \*    - ser is behind old, but only because RFC 2136 itself prescribes it: every installed
      \*      SOA was strictly greater than the one it replaced (clean) and the chain of them ends
      \*      at a serial that is not ahead of old (RFC 1982 order is not transitive).
      \*    A serial strictly BEHIND the old one in any other way is a violation: in particular an
      \*    SOA at distance 2^31 that is installed (pseudocode reading) and then incremented.
      [] OTHER          -> /\ SerialGE(ser, o.floor)
                           /\ \/ SerialGT(ser, S.ser)
                              \/ /\ o.floor # S.ser
                                 /\ \/ SerialUndefined(S.ser, ser)
                                    \/ (o.clean /\ ~SerialGT(o.floor, S.ser))

Realises(S, o, rc, rrs, ser) == rc = o.rc /\ rrs = o.rrs /\ SerialFits(S, o, ser)

-----------------------------------------------------------------------------
(* Zone well-formedness (second sentence of C12), on a set of zone RRs       *)
(* (SOA RRs included as <<owner, "SOA", 0>>).                                *)
OneSOA(rrs, apex)  == {r \in rrs : r[2] = "SOA"} = {<<apex, "SOA", 0>>}
ApexNS(rrs, apex)  == RRsetOf(rrs, apex, "NS") # {}
CnameAlone(rrs)    == \A r \in rrs : r[2] = "CNAME" => AtName(rrs, r[1]) = {r}
WellFormed(rrs, apex) == OneSOA(rrs, apex) /\ ApexNS(rrs, apex) /\ CnameAlone(rrs)
=============================================================================
