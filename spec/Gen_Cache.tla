------------------------------ MODULE Gen_Cache ------------------------------
(* Behaviour generator for Cache (C15, obligation R).  Histories of            *)
(* insert / get / advance with, for every get, the outcome the specification   *)
(* allows: whether a miss is mandatory (no entry, or the entry is late) and    *)
(* the exact TTLs a hit has to report.  Used with `-simulate` (seeded) and,    *)
(* for short histories, exhaustively.                                          *)
EXTENDS Cache, Json

CONSTANT MaxLen
VARIABLE log

GInit == Init /\ log = <<>>

QJ(q) == [name |-> q.name, type |-> q.type]
GetObs(q) ==
    /\ LET e == store[q]
           mustMiss == e.kind = "none" \/ Late(e.at, now, e.life)
       IN log' = Append(log, [op |-> "get", q |-> QJ(q), t |-> now, mustMiss |-> mustMiss,
                              kind |-> e.kind,
                              ttls |-> IF e.kind = "pos" THEN HitTtls(e.recs, e.at, now) ELSE <<>>,
                              negMax |-> IF e.kind = "neg" THEN e.neg ELSE 0 - 1])
    /\ UNCHANGED vars

GNext ==
    /\ Len(log) < MaxLen
    /\ \/ \E q \in Queries, m \in Messages :
            InsertPos(q, m) /\ log' = Append(log, [op |-> "pos", q |-> QJ(q), t |-> now, recs |-> m])
       \/ \E q \in Queries, n \in NegTtls :
            InsertNeg(q, n) /\ log' = Append(log, [op |-> "neg", q |-> QJ(q), t |-> now, n |-> n])
       \/ \E q \in Queries, c \in ErrClasses :
            InsertErr(q, c) /\ log' = Append(log, [op |-> "err", q |-> QJ(q), t |-> now, c |-> c])
       \/ \E q \in Queries : GetObs(q)
       \/ \E d \in Steps : Advance(d) /\ log' = Append(log, [op |-> "adv", d |-> d, t |-> now + d])

GSpec == GInit /\ [][GNext]_<<vars, log>>

BJ(b) == [pmin |-> b.pmin, pmax |-> b.pmax, nmin |-> b.nmin, nmax |-> b.nmax]
Case == [cfg |-> [def |-> BJ(Cfg.def), byType |-> Cfg.byType], log |-> log]
Emit == (Len(log) = MaxLen) => PrintT(<<"REPLAY", ToJson(Case)>>)
=============================================================================
