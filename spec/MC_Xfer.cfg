\* the honest server under every duty, capacity and chunking, with the client behind it
SPECIFICATION Spec
CONSTANTS
  Rest <- MC_Rest
  Serial <- MC_Serial
  Caps <- MC_Caps
  Policies <- MC_Policies
  Reqs <- MC_Reqs
  Sources <- MC_ServerOnly
  ScriptMsgs <- MC_ScriptMsgs
  MaxScript = 0
  Flaws <- MC_NoFlaws
INVARIANTS TypeOK X02_ServerAnswerConforms X02_ServerPrefix X02_NoDataUnlessOwed X02_ClientCompleteIsWhole X02_ClientVerdict X02_Delivery X02_EndToEnd X02_HonestFailsOnlyBelow
CHECK_DEADLOCK FALSE
