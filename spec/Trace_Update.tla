--------------------------- MODULE Trace_Update ---------------------------
(* Trace validation for C12 (obligation T: impl -> spec), monitor style.    *)
(* Events recorded from a real SqliteZoneHandler behind a real Catalog:     *)
(*   reset  case, apex, rrs, ser (zone as loaded), want, wantser (as meant) *)
(*   msg    m = [pre, upd] (as sent), rc (RCODE of the reply), rrs, ser     *)
(*          (zone and serial read back after the reply), ghosts (diagnostic)*)
(*   axfr   rrs: the RR set a client obtains by AXFR at the end of a case   *)
(* Names arrive as sequences of byte labels in whatever case the sender or  *)
(* the server used; the monitor folds them (DnsNames!FoldName, RFC 1035     *)
(* 2.3.3 / RFC 2136 1.1.2) so that case handling is judged here, not by the *)
(* driver.                                                                  *)
(*                                                                          *)
(* Every message is judged as one step of the specification from the zone   *)
(* the implementation itself was in after the previous message ("each       *)
(* message's prerequisites are judged against the zone as left by the       *)
(* earlier messages"): the observed reply, zone and serial must realise one *)
(* of UpdateOps!Outcomes, and the zone must be well-formed.  After a        *)
(* mismatch the monitor goes on from the observed zone if that is still a   *)
(* well-formed zone (so one known defect does not hide the rest of a long   *)
(* history) and skips the rest of the case otherwise.                       *)
EXTENDS Naturals, Sequences, FiniteSets, TLC, Json, IOUtils, DnsNames, UpdateOps

Rec == ndJsonDeserialize(IOEnv.TRACE)

VARIABLES l,        \* next line of Rec
          cid,      \* id of the current case
          apex,     \* folded zone name of the current case
          S,        \* [rrs, ser]: zone as observed after the last event
          gh,       \* diagnostics of the last event (never used to judge, only reported)
          skipping, bad

tvars == <<l, cid, apex, S, gh, skipping, bad>>

e == Rec[l]
Has(f) == f \in DOMAIN e

SeqToSet(s) == {s[k] : k \in DOMAIN s}
FoldRRs(s)  == {<<FoldName(r[1]), r[2], r[3]>> : r \in SeqToSet(s)}
FoldSec(s)  == [k \in DOMAIN s |-> [s[k] EXCEPT !.o = FoldName(s[k].o)]]
FoldMsg(m)  == [pre |-> FoldSec(m.pre), upd |-> FoldSec(m.upd)]

Init ==
    /\ l = 1 /\ cid = "none" /\ apex = <<>> /\ S = [rrs |-> {}, ser |-> <<0, 0>>]
    /\ gh = <<>> /\ skipping = TRUE /\ bad = 0

---------------------------------------------------------------------------
\* reset: the zone the driver loaded must be the zone it meant to load (adapter round trip:
\* concretise -> zone file -> hickory -> projection) and must be well-formed
ResetOK ==
    /\ FoldRRs(e.rrs) = FoldRRs(e.want) /\ e.ser = e.wantser
    /\ WellFormed(FoldRRs(e.rrs), FoldName(e.apex))

Reset ==
    /\ e.ev = "reset"
    /\ cid' = e.case /\ apex' = FoldName(e.apex)
    /\ S' = [rrs |-> FoldRRs(e.rrs), ser |-> e.ser] /\ gh' = <<>>
    /\ IF ResetOK THEN skipping' = FALSE /\ bad' = bad
       ELSE /\ PrintT(<<"MISMATCH", ToJson([case |-> e.case, line |-> l, kind |-> "reset", event |-> e])>>)
            /\ skipping' = TRUE /\ bad' = bad + 1

---------------------------------------------------------------------------
\* msg
M    == FoldMsg(e.m)
Obs  == [rc |-> e.rc, rrs |-> FoldRRs(e.rrs), ser |-> e.ser]
\* (journal runs, event field lock: another connection held the write lock of the journal while the
\* message was processed -- Journal!LockHeld; the server may then refuse it with SERVFAIL, nothing
\* applied)
Outs == Outcomes(S, M, apex) \cup (IF Has("lock") /\ e.lock THEN Rejects(S, {"SERVFAIL"}) ELSE {})

MsgOK ==
    /\ \E o \in Outs : Realises(S, o, Obs.rc, Obs.rrs, Obs.ser)
    /\ WellFormed(Obs.rrs, apex)

\* which requirement of C12 the event breaks (for the report / the classifier)
Broken ==
    (IF Obs.rc \notin {o.rc : o \in Outs} THEN {"rcode"} ELSE {})
    \cup (IF ~\E o \in Outs : o.rrs = Obs.rrs /\ (o.rc = Obs.rc \/ Obs.rc \notin {p.rc : p \in Outs})
          THEN {"contents"} ELSE {})
    \cup (IF (\E o \in Outs : o.rc = Obs.rc /\ o.rrs = Obs.rrs)
             /\ ~(\E o \in Outs : Realises(S, o, Obs.rc, Obs.rrs, Obs.ser))
          THEN {"serial"} ELSE {})
    \cup (IF Obs.rc # "NOERROR" /\ (Obs.rrs # S.rrs \/ Obs.ser # S.ser) THEN {"all-or-nothing"} ELSE {})
    \cup (IF ~OneSOA(Obs.rrs, apex) THEN {"one-soa"} ELSE {})
    \cup (IF ~ApexNS(Obs.rrs, apex) THEN {"apex-ns"} ELSE {})
    \cup (IF ~CnameAlone(Obs.rrs) THEN {"cname-alone"} ELSE {})

\* the outcome to report as "expected": one with the observed RCODE if there is one
Ref == IF \E o \in Outs : o.rc = Obs.rc THEN CHOOSE o \in Outs : o.rc = Obs.rc ELSE CHOOSE o \in Outs : TRUE

OnlyLenient ==
    /\ \E o \in Outs : Realises(S, o, Obs.rc, Obs.rrs, Obs.ser)
    /\ \A o \in Outs : Realises(S, o, Obs.rc, Obs.rrs, Obs.ser) => o.lenient

Report(kind) ==
    PrintT(<<"MISMATCH", ToJson([case |-> cid, line |-> l, kind |-> kind, broken |-> Broken,
              m |-> M, rc |-> Obs.rc, ser |-> Obs.ser, pre_ser |-> S.ser,
              pre_rrs |-> S.rrs,
              exp_rcs |-> {o.rc : o \in Outs}, exp_adv |-> Ref.adv, exp_floor |-> Ref.floor,
              missing |-> Ref.rrs \ Obs.rrs, extra |-> Obs.rrs \ Ref.rrs,
              \* which RRs of the message the specification faults, one by one
              pre_bad |-> {k \in 1..Len(M.pre) : PreFormErrors(M.pre[k], apex) # {} \/ PreZoneErrors(S, M.pre[k], apex) # {}},
              pre_val_bad |-> PreValueMismatch(S, M.pre, apex) # {},
              scan_bad |-> {k \in 1..Len(M.upd) : ScanErrors(M.upd[k], apex) # {}},
              ghosts_before |-> gh,
              ghosts |-> IF Has("ghosts") THEN e.ghosts ELSE <<>>])>>)

\* (parameterised by the event name: Trace_Journal judges the messages sent after a recovery,
\* "rmsg", by the same rule)
MsgStep(evname) ==
    /\ e.ev = evname /\ ~skipping
    /\ gh' = (IF Has("ghosts") THEN e.ghosts ELSE <<>>)
    /\ IF MsgOK
       THEN /\ (OnlyLenient => PrintT(<<"NOTE", ToJson([case |-> cid, line |-> l, kind |-> "prereq-subset-accepted"])>>))
            /\ S' = [rrs |-> Obs.rrs, ser |-> Obs.ser] /\ UNCHANGED <<skipping, bad>>
       ELSE /\ Report(evname)
            /\ bad' = bad + 1
            \* go on from what the implementation really has, if that is still a zone
            /\ IF WellFormed(Obs.rrs, apex)
               THEN S' = [rrs |-> Obs.rrs, ser |-> Obs.ser] /\ skipping' = FALSE
               ELSE S' = S /\ skipping' = TRUE
    /\ UNCHANGED <<cid, apex>>
Msg == MsgStep("msg")

---------------------------------------------------------------------------
\* axfr: what a client sees is the zone the updates left
Axfr ==
    /\ e.ev = "axfr" /\ ~skipping
    /\ IF ~Has("err") /\ FoldRRs(e.rrs) = S.rrs THEN bad' = bad
       ELSE /\ PrintT(<<"MISMATCH", ToJson([case |-> cid, line |-> l, kind |-> "axfr", event |-> e,
                                            missing |-> S.rrs \ FoldRRs(e.rrs), extra |-> FoldRRs(e.rrs) \ S.rrs])>>)
            /\ bad' = bad + 1
    /\ UNCHANGED <<cid, apex, S, gh, skipping>>

Skip == skipping /\ e.ev # "reset" /\ UNCHANGED <<cid, apex, S, gh, skipping, bad>>

\* events of the journal experiments (C14) are not C12's business
Other == ~skipping /\ e.ev \notin {"reset", "msg", "axfr"} /\ UNCHANGED <<cid, apex, S, gh, skipping, bad>>

Next == l <= Len(Rec) /\ l' = l + 1 /\ (Reset \/ Msg \/ Axfr \/ Skip \/ Other)

TraceSpec == Init /\ [][Next]_tvars

Consumed ==
    LET d == TLCGet("stats").diameter IN
    IF d - 1 = Len(Rec) THEN PrintT(<<"TRACE-CONSUMED", Len(Rec)>>)
    ELSE PrintT(<<"TRACE-STUCK", d, Len(Rec)>>) /\ FALSE
=============================================================================
