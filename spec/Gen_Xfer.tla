------------------------------- MODULE Gen_Xfer -------------------------------
(* Case generator for X02 (obligation R: spec -> impl).  Three families:       *)
(*  "server"   zone contents x store x signing x policy x catalog x transfer    *)
(*             request, each with the duty the specification derives           *)
(*             (XferOps!Duty).  The driver builds the real zones and catalog,  *)
(*             sends the request, and the answer -- a sequence of messages --  *)
(*             is judged against XferOps!Alternatives by the monitor.          *)
(*  "client"   scripted message sequences (well-formed transfers in EVERY      *)
(*             chunking, 1 record per message ... all in one; and malformed    *)
(*             ones: never closed, closed by another SOA, no leading SOA,      *)
(*             records after the closing SOA, error RCODEs anywhere, empty     *)
(*             messages, IXFR forms of RFC 1995) with the verdict              *)
(*             XferOps!ClientVerdict prescribes.                               *)
(*  "request"  the transfer request the client has to build.                   *)
(*  "e2e"      zone contents x store x policy x AXFR / IXFR: the real client    *)
(*             stack asks the real server; what it reports as a successful      *)
(*             transfer has to be the whole zone.                               *)
(* Only initial states are enumerated: one state per case.                     *)
EXTENDS XferOps, TLC, Json

CONSTANTS Family,   \* "server" | "client" | "request" | "e2e"
          Level     \* "quick" | "thorough"
VARIABLE c

(* ---- zone contents (relative owner names; "@" is the apex example.) --------- *)
Rr(o, t, d, x) == [o |-> o, t |-> t, d |-> d, x |-> x, ttl |-> 3600]
RrT(o, t, d, x, ttl) == [o |-> o, t |-> t, d |-> d, x |-> x, ttl |-> ttl]
ApexOnly == << Rr("@", "SOA", 7, ""), Rr("@", "NS", 0, "ns") >>
SoaOnly  == << Rr("@", "SOA", 7, "") >>
Small == ApexOnly \o << Rr("ns", "A", 1, ""), Rr("www", "A", 2, ""), Rr("www", "A", 3, ""), Rr("www", "AAAA", 4, ""),
                        Rr("@", "MX", 0, "mail"), Rr("mail", "A", 5, ""), Rr("txt", "TXT", 6, "") >>
\* a delegation with in-zone glue, a DS, a name hidden below the cut, a second NS out of zone
Deleg == Small \o << Rr("sub", "NS", 0, "ns.sub"), Rr("sub", "NS", 0, "ns.elsewhere.test."), Rr("ns.sub", "A", 9, ""),
                     Rr("sub", "DS", 11, ""), Rr("below.sub", "A", 12, ""), Rr("sub2", "NS", 0, "ns") >>
\* wildcard, alias, empty non-terminals, upper-case owner, mixed TTLs, a big RRset
Mixed == ApexOnly \o << Rr("ns", "A", 1, ""), Rr("*.w", "A", 20, ""), Rr("c", "CNAME", 0, "www"), Rr("a.b.c.d", "TXT", 21, ""),
                        Rr("UPPER", "A", 22, ""), RrT("short", "A", 23, "", 5), RrT("long", "A", 24, "", 604800),
                        RrT("zero", "TXT", 25, "", 0), Rr("_sip._tcp", "TXT", 26, "") >>
                  \o [i \in 1..12 |-> Rr("many", "A", 100 + i, "")]
\* many RRsets; zones of more than 64 KiB, which no single message can carry
ManySets  == ApexOnly \o << Rr("t", "BULK-TXT", 400, "") >>
JustFits  == ApexOnly \o << Rr("b", "BULK-BIGTXT", 15, "") >>
BigTxt    == ApexOnly \o << Rr("b", "BULK-BIGTXT", 20, "") >>
ManyA     == ApexOnly \o << Rr("h", "BULK-A", 5000, "") >>
Huge      == ApexOnly \o << Rr("b", "BULK-BIGTXT", 70, ""), Rr("h", "BULK-A", 3000, "") >>

Shape == [soaOnly |-> SoaOnly, apexOnly |-> ApexOnly, small |-> Small, deleg |-> Deleg, mixed |-> Mixed,
          manySets |-> ManySets, justFits |-> JustFits, bigTxt |-> BigTxt, manyA |-> ManyA, huge |-> Huge]
LittleShapes == {"soaOnly", "apexOnly", "small", "deleg", "mixed"}
BulkShapes == {"manySets", "justFits", "bigTxt", "manyA"}

(* ---- server cases -------------------------------------------------------------- *)
SC(sh, sg, st, po, ot, pr, qt, hv, qn, ed, dn, id) ==
    [shape |-> sh, sign |-> sg, store |-> st, policy |-> po, others |-> ot, proto |-> pr, qtype |-> qt, have |-> hv,
     qname |-> qn, edns |-> ed, do |-> dn, id |-> id]
Stores == {"memory", "sqlite"}
QH == {<<"AXFR", "none">>, <<"IXFR", "older">>, <<"IXFR", "same">>, <<"IXFR", "newer">>}
QNames == {"apex", "apexUpper", "below", "belowMissing", "child", "sibling", "nozone"}
Edns == {<<0, FALSE>>, <<4096, FALSE>>, <<4096, TRUE>>}

\* every zone shape, plain allowed AXFR over TCP, alone in the catalog or next to other zones
F1 == {SC(sh, "none", st, "all", ot, "tcp", "AXFR", "none", "apex", 0, FALSE, 4660) :
          sh \in LittleShapes \cup BulkShapes \cup (IF Level = "thorough" THEN {"huge"} ELSE {}), st \in Stores, ot \in BOOLEAN}
\* signed zones, with and without DO
F2 == {SC(sh, sg, st, "all", FALSE, "tcp", "AXFR", "none", "apex", ed[1], ed[2], 17) :
          sh \in (IF Level = "thorough" THEN LittleShapes \cup {"bigTxt", "manySets"} ELSE {"small", "deleg"}),
          sg \in {"nsec", "nsec3"}, st \in Stores, ed \in Edns}
\* policy x transport x query type x query name
F3 == {SC(sh, sg, st, po, TRUE, pr, qh[1], qh[2], qn, 0, FALSE, 99) :
          sh \in (IF Level = "thorough" THEN {"small", "deleg", "apexOnly"} ELSE {"small"}),
          sg \in (IF Level = "thorough" THEN {"none", "nsec"} ELSE {"none"}),
          st \in Stores, po \in {"all", "deny", "signed"}, pr \in {"tcp", "udp"}, qh \in QH, qn \in QNames}
\* message IDs and EDNS sizes (the size limit of a TCP answer does not depend on them)
F4 == {SC(sh, "none", "memory", "all", FALSE, pr, "AXFR", "none", "apex", ed, FALSE, id) :
          sh \in {"small", "bigTxt"}, pr \in {"tcp", "udp"}, ed \in {0, 512, 1232, 4096}, id \in {0, 1, 4660, 65535}}
\* no other zones in the catalog: the child / sibling names are nobody's
F5 == {SC("deleg", "none", st, "all", FALSE, "tcp", qh[1], qh[2], qn, 0, FALSE, 5) :
          st \in Stores, qh \in QH, qn \in {"child", "sibling", "below"}}
ServerCases == F1 \cup F2 \cup F3 \cup F4 \cup F5

ReqOf(x) == [proto |-> x.proto, qtype |-> x.qtype, qname |-> x.qname, edns |-> x.edns, do |-> x.do, have |-> x.have, id |-> x.id]
\* 1 = some zone the catalog serves has this apex (which one is the driver's business), 0 = none
TargetOf(x) == IF x.qname \in {"apex", "apexUpper"} THEN 1
               ELSE IF x.others /\ x.qname \in {"child", "sibling"} THEN 1 ELSE 0
ServerJson(x) == [kind |-> "server", shape |-> x.shape, zone |-> Shape[x.shape], sign |-> x.sign, store |-> x.store,
                  policy |-> x.policy, others |-> x.others, req |-> ReqOf(x),
                  exp |-> [duty |-> Duty(ReqOf(x), x.policy, TargetOf(x))]]

(* ---- client cases -------------------------------------------------------------- *)
S(n) == <<"soa", n>>
R(k) == <<"rr", k>>
M(rc, an) == [rc |-> rc, an |-> an]
Body(n) == [i \in 1..n |-> R(i)]
Whole(n) == <<S(3)>> \o Body(n) \o <<S(3)>>

\* every way of cutting a record sequence into messages
RECURSIVE Chunks(_)
Chunks(recs) ==
    IF recs = <<>> THEN {<<>>}
    ELSE UNION {{<<M(0, SubSeq(recs, 1, k))>> \o rest : rest \in Chunks(SubSeq(recs, k + 1, Len(recs)))} : k \in 1..Len(recs)}
ChunksOfAll(lists) == UNION {Chunks(l) : l \in lists}

N == IF Level = "thorough" THEN 5 ELSE 3
AxfrLists ==
    {Whole(n) : n \in 0..N}                                    \* well formed
    \cup {<<S(3)>> \o Body(n) : n \in 0..(N - 1)}              \* never closed
    \cup {<<S(3)>> \o Body(n) \o <<S(4)>> : n \in 0..(N - 1)}  \* closed by another SOA
    \cup {<<S(3)>> \o Body(n) \o <<S(2)>> : n \in 0..1}
    \cup {Body(n) \o <<S(3)>> : n \in 1..2}                    \* no leading SOA
    \cup {<<R(9)>> \o Whole(n) : n \in 0..1}                   \* a record before the leading SOA
    \cup {Whole(n) \o <<R(9)>> : n \in 0..2}                   \* a record behind the closing SOA
    \cup {Whole(n) \o Whole(1) : n \in 0..1}                   \* a second transfer behind the first
    \cup {<<S(3), R(1), S(3), R(2), S(3)>>, <<S(3), R(1), S(4), R(2), S(3)>>}   \* an SOA inside
    \cup {<<R(1)>>, <<R(1), R(2)>>, <<>>}

InsertAt(s, i, m) == SubSeq(s, 1, i) \o <<m>> \o SubSeq(s, i + 1, Len(s))
\* an error response anywhere (without or with records), an empty NOERROR message anywhere
WithError(s) == {InsertAt(s, i, M(rc, <<>>)) : i \in 0..Len(s), rc \in {2, 5}}
                \cup {[s EXCEPT ![i].rc = 2] : i \in 1..Len(s)}
WithEmpty(s) == {InsertAt(s, i, M(0, <<>>)) : i \in 0..Len(s)}
ErrBase == ChunksOfAll({Whole(n) : n \in 0..2})
AxfrScripts == ChunksOfAll(AxfrLists) \cup UNION {WithError(s) : s \in ErrBase} \cup UNION {WithEmpty(s) : s \in ChunksOfAll({Whole(1)})}

\* RFC 1995: difference sequences (old SOA, deletions, new SOA, additions), oldest first
IncrA == <<S(3), S(2), R(1), S(3), R(2), S(3)>>
IncrB == <<S(3), S(1), R(1), S(2), R(2), S(2), S(3), R(4), S(3)>>
IncrEmpty == <<S(3), S(2), S(3), S(3)>>
IxfrLists ==
    {Whole(n) : n \in 0..2} \cup {IncrA, IncrEmpty}
    \cup (IF Level = "thorough" THEN {IncrB} ELSE {})
    \cup {SubSeq(IncrA, 1, 5), SubSeq(IncrA, 1, 4), <<S(3), S(2)>>}                 \* cut short
    \cup {<<S(3), S(2), R(1), S(3), R(2), S(4)>>, IncrA \o <<R(9)>>, <<S(3)>>}      \* closed by another SOA, trailing record, single SOA
IxfrBehind == ChunksOfAll(IxfrLists) \cup UNION {WithError(s) : s \in Chunks(IncrA)}

\* "direct": the transfer stream over a scripted response stream that ends plainly ("end") or with an
\* error item ("err");  "stack": the whole client (exchange + multiplexer with its request time-out) over a
\* scripted connection that goes silent ("timeout") or is closed by the peer ("close")
Terms == {"end", "err"}
StackTerms == {"timeout", "close"}
CC(via, mode, have, script, term) == [via |-> via, mode |-> mode, have |-> have, script |-> script, term |-> term]
StackAxfr == ChunksOfAll({Whole(0), Whole(1), Whole(2), <<S(3)>>, <<S(3), R(1)>>, <<S(3), R(1), R(2)>>, <<S(3), R(1), S(4)>>,
                          <<R(1), S(3)>>, Whole(1) \o <<R(9)>>, Whole(1) \o Whole(1), <<>>})
             \cup UNION {WithError(s) : s \in Chunks(Whole(1))}
StackIxfr == ChunksOfAll({IncrA, Whole(1), SubSeq(IncrA, 1, 5), <<S(3)>>})
ClientCases ==
    {CC("direct", "axfr", 0, s, t) : s \in AxfrScripts, t \in Terms}
    \* an IXFR client that is behind (2 < 3) ...
    \cup {CC("direct", "ixfr", 2, s, t) : s \in IxfrBehind, t \in Terms}
    \* ... and one that is current or ahead: the single SOA says so
    \cup {CC("direct", "ixfr", hv, <<M(0, <<S(3)>>)>>, t) : hv \in {3, 4}, t \in Terms}
    \cup {CC("direct", "ixfr", 3, <<M(0, <<S(3)>>), M(0, <<R(9)>>)>>, t) : t \in Terms}
    \cup {CC("stack", "axfr", 0, s, t) : s \in StackAxfr, t \in StackTerms}
    \cup {CC("stack", "ixfr", 2, s, t) : s \in StackIxfr, t \in StackTerms}
    \cup {CC("stack", "ixfr", 3, <<M(0, <<S(3)>>)>>, t) : t \in StackTerms}
ClientJson(x) ==
    [kind |-> "client", via |-> x.via, mode |-> x.mode, have |-> x.have, script |-> x.script, term |-> x.term,
     exp |-> [verdict |-> ClientVerdict(x.script, x.mode, x.have).verdict, k |-> ClientVerdict(x.script, x.mode, x.have).k,
              why |-> Why(x.script, x.mode, x.have)]]

(* ---- request cases --------------------------------------------------------------- *)
\* mname: the MNAME of the SOA the caller passes -- the zone name itself, or (as in every real
\* zone) the name of the primary server
RequestCases == {[mode |-> "axfr", have |-> 0, mname |-> "ns"]}
                \cup {[mode |-> "ixfr", have |-> hv, mname |-> mn] : hv \in {0, 5, 2147483647}, mn \in {"origin", "ns"}}
RequestJson(x) == [kind |-> "request", mode |-> x.mode, have |-> x.have, mname |-> x.mname]

(* ---- end-to-end cases -------------------------------------------------------------- *)
\* the real client asks the real server for the zone; unsigned zones (the client never sets DO)
E2ECases == {[shape |-> sh, store |-> st, policy |-> po, mode |-> mh[1], have |-> mh[2]] :
                sh \in LittleShapes \cup BulkShapes \cup (IF Level = "thorough" THEN {"huge"} ELSE {}), st \in Stores,
                po \in {"all", "deny"}, mh \in {<<"axfr", "none">>, <<"ixfr", "older">>, <<"ixfr", "same">>}}
E2EJson(x) == [kind |-> "e2e", shape |-> x.shape, zone |-> Shape[x.shape], sign |-> "none", store |-> x.store,
               policy |-> x.policy, others |-> FALSE, mode |-> x.mode, have |-> x.have]

(* ------------------------------------------------------------------------------------ *)
Cases == CASE Family = "server" -> ServerCases [] Family = "client" -> ClientCases [] Family = "request" -> RequestCases
         [] Family = "e2e" -> E2ECases
CaseJson == CASE Family = "server" -> ServerJson(c) [] Family = "client" -> ClientJson(c) [] Family = "request" -> RequestJson(c)
            [] Family = "e2e" -> E2EJson(c)

Init == c \in Cases
Next == FALSE /\ UNCHANGED c
Spec == Init /\ [][Next]_c
Emit == PrintT(<<"REPLAY", ToJson(CaseJson)>>)
=============================================================================
