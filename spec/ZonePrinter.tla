----------------------------- MODULE ZonePrinter -----------------------------
(* C20 -- the independent master-file printer as a machine.  It writes a     *)
(* zone file entry by entry and item by item; every layout decision RFC 1035 *)
(* section 5.1 leaves to the writer is a nondeterministic choice of an       *)
(* action parameter (TLC enumerates them exhaustively in MC_ZoneFile and     *)
(* picks them at random in Gen_ZoneFile -simulate):                          *)
(*   - $ORIGIN / $TTL directives, blank lines and comment lines anywhere;    *)
(*   - owner written absolute, relative to the current origin, as @, or      *)
(*     omitted (line starts with white space) when it is the last stated one;*)
(*   - TTL omitted when $TTL (RFC 2308 4) or, without $TTL, the last stated  *)
(*     TTL already is the record's; class omitted when the last stated class *)
(*     is the record's; TTL and class in either order;                       *)
(*   - every RDATA name absolute / relative / @, every character string      *)
(*     quoted (\" and \\ escaped) or unquoted, alternative spellings of      *)
(*     addresses and hex;                                                    *)
(*   - items separated by any mix of blanks and tabs; one "(" ... ")" group  *)
(*     per RR with line breaks and comments inside; trailing comments; LF or *)
(*     CRLF; the last line with or without a line terminator.                *)
(* The printer keeps its own account `ctx` of what a reader inherits at the  *)
(* current position.  That the text it writes denotes exactly the records it *)
(* was given -- for every choice -- is requirement C20_Denotes, decided by   *)
(* running the independent reading ZoneFile!Read on the text.                *)
(*                                                                           *)
(* `Opt` switches layout features on that are legal RFC 1035 but set apart   *)
(* so that generator configurations can use them one at a time.              *)
EXTENDS ZoneFile, TLC

CONSTANTS Origin0,     \* origin handed to the loader (absolute name)
          Records,     \* universe of records the file may contain (well-formed as a set)
          Origins,     \* names $ORIGIN may switch to
          TtlDirs,     \* values $TTL may set
          Seps,        \* separators between items outside parentheses
          PSeps,       \* separators inside parentheses (may contain line breaks and comments)
          Comments,    \* comment texts (each starts with ";")
          Eols,        \* line terminators
          MaxRR, MaxDir, MaxBlank, MaxEntries,
          MinRR,       \* the file does not end before this many RRs (generator: longer files)
          FirstRR,     \* if not empty: the first RR of the file is taken from this set (zone files start with the SOA)
          Opt

VARIABLES pieces, ctx, recs, pc, cur, fi, par, cnt, done
pvars == <<pieces, ctx, recs, pc, cur, fi, par, cnt, done>>

NoRec == [o |-> <<>>, c |-> "", t |-> "", ttl |-> "", rd |-> <<>>]

PInit ==
    /\ pieces = <<>>
    /\ ctx = [origin |-> Origin0, hasOwner |-> FALSE, owner |-> <<>>, class |-> "", ttlDef |-> "", ttlLast |-> ""]
    /\ recs = <<>> /\ pc = "line" /\ cur = NoRec /\ fi = 0 /\ par = "no"
    /\ cnt = [rr |-> 0, dir |-> 0, blank |-> 0] /\ done = FALSE

Put(ps) == pieces' = pieces \o ps
Room == cnt.rr + cnt.dir + cnt.blank < MaxEntries

\* ---------------------------------------------------------------------------
\* spelling of values
JoinDot(ss) == IF ss = <<>> THEN "" ELSE FoldLeft(LAMBDA a, s : a \o "." \o s, ss[1], Tail(ss))
LabelText(l) == Cat([i \in 1..Len(l) |-> LET c == SubSeq(l, i, i) IN IF c = "." THEN "\\." ELSE c])
IsUnder(n, o) == Len(n) > Len(o) /\ SubSeq(n, Len(n) - Len(o) + 1, Len(n)) = o

NameForms(n, o, type) ==
    {"abs"} \cup (IF IsUnder(n, o) /\ (type \notin {"SVCB", "HTTPS"} \/ "rdname-rel-svcb" \in Opt) THEN {"rel"} ELSE {})
            \cup (IF n = o /\ "rdname-at" \in Opt THEN {"at"} ELSE {})
OwnerForms(n) ==
    {"abs"} \cup (IF IsUnder(n, ctx.origin) THEN {"rel"} ELSE {})
            \cup (IF n = ctx.origin THEN {"at"} ELSE {})
            \cup (IF ctx.hasOwner /\ ctx.owner = n THEN {"blank"} ELSE {})
NameText(n, form, o) ==
    CASE form = "abs" -> IF n = <<>> THEN "." ELSE JoinDot([i \in DOMAIN n |-> LabelText(n[i])]) \o "."
      [] form = "rel" -> JoinDot([i \in 1..(Len(n) - Len(o)) |-> LabelText(n[i])])
      [] form = "at"  -> "@"

StrForms(s, inParen) ==
    LET cs == Chars(s)
        plain == cs # <<>> /\ (\A i \in DOMAIN cs : cs[i] \in Ordinary) /\ s # "@"
    IN (IF ~inParen \/ "str-quoted-in-paren" \in Opt THEN {"q"} ELSE {})
       \cup (IF plain /\ (cs[1] # "$" \/ "str-unquoted-dollar" \in Opt) THEN {"u"} ELSE {})
       \cup (IF ~plain /\ cs # <<>> /\ (\A i \in DOMAIN cs : cs[i] \in Printable) /\ "str-unquoted-escape" \in Opt THEN {"e"} ELSE {})
StrText(s, form) ==
    LET cs == Chars(s) IN
    CASE form = "q" -> "\"" \o Cat([i \in DOMAIN cs |-> IF cs[i] \in {"\"", "\\"} THEN "\\" \o cs[i] ELSE cs[i]]) \o "\""
      [] form = "u" -> s
      [] form = "e" -> IF s = "@" THEN "\\@"        \* a free-standing @ would be the origin
                       ELSE Cat([i \in DOMAIN cs |-> IF cs[i] \in Ordinary THEN cs[i] ELSE "\\" \o cs[i]])

AtomForms(kind, v) == {a[2] : a \in {b \in AtomTable : b[1] = kind /\ b[3] = v}}

NFields(r) == Len(r.rd)
Kind(r, i) == KindAt(TypeShape[r.t], i)

\* the spellings of field i of record r: set of <<tag, text>>
FieldTexts(r, i, inParen) ==
    LET k == Kind(r, i) v == r.rd[i] IN
    CASE k = "name" -> {<<f, NameText(v, f, ctx.origin)>> : f \in NameForms(v, ctx.origin, r.t)}
      [] k \in {"str", "flags"} -> {<<f, StrText(v[1], f)>> : f \in StrForms(v[1], inParen)}
      [] k \in {"u8", "u16", "u32", "i32"} -> {<<"n", v[1]>>}
      [] OTHER      -> {<<"a", t>> : t \in AtomForms(k, v[1])}

\* ---------------------------------------------------------------------------
\* line-level actions (pc = "line")
Trail(cm, s) == IF cm = "" THEN <<>> ELSE <<s, cm>>

PutOrigin(o, form, s, cm, eol) ==
    /\ pc = "line" /\ ~done /\ cnt.dir < MaxDir /\ Room /\ o # ctx.origin
    /\ form \in {"abs"} \cup (IF IsUnder(o, ctx.origin) /\ "$ORIGIN-rel" \in Opt THEN {"rel"} ELSE {})
    /\ Put(<<"$ORIGIN", s, NameText(o, form, ctx.origin)>> \o Trail(cm, s) \o <<eol>>)
    /\ ctx' = [ctx EXCEPT !.origin = o]
    /\ cnt' = [cnt EXCEPT !.dir = @ + 1]
    /\ UNCHANGED <<recs, pc, cur, fi, par, done>>

PutTtl(t, s, cm, eol) ==
    /\ pc = "line" /\ ~done /\ cnt.dir < MaxDir /\ Room /\ t # ctx.ttlDef
    /\ Put(<<"$TTL", s, t>> \o Trail(cm, s) \o <<eol>>)
    /\ ctx' = [ctx EXCEPT !.ttlDef = t]
    /\ cnt' = [cnt EXCEPT !.dir = @ + 1]
    /\ UNCHANGED <<recs, pc, cur, fi, par, done>>

PutBlankLine(lead, cm, eol) ==
    /\ pc = "line" /\ ~done /\ cnt.blank < MaxBlank /\ Room
    /\ Put((IF lead = "" THEN <<>> ELSE <<lead>>) \o (IF cm = "" THEN <<>> ELSE <<cm>>) \o <<eol>>)
    /\ cnt' = [cnt EXCEPT !.blank = @ + 1]
    /\ UNCHANGED <<ctx, recs, pc, cur, fi, par, done>>

StartRR(r, form) ==
    /\ pc = "line" /\ ~done /\ cnt.rr < MaxRR /\ Room
    /\ \A i \in DOMAIN recs : recs[i] # r
    /\ (recs = <<>> /\ FirstRR # {}) => r \in FirstRR
    /\ form \in OwnerForms(r.o)
    /\ Put(IF form = "blank" THEN <<>> ELSE <<NameText(r.o, form, ctx.origin)>>)
    /\ cur' = r /\ fi' = 0 /\ par' = "no" /\ pc' = "head"
    /\ ctx' = [ctx EXCEPT !.hasOwner = TRUE, !.owner = r.o]
    /\ cnt' = [cnt EXCEPT !.rr = @ + 1]
    /\ UNCHANGED <<recs, done>>

Finish == pc = "line" /\ ~done /\ cnt.rr >= MinRR /\ done' = TRUE /\ UNCHANGED <<pieces, ctx, recs, pc, cur, fi, par, cnt>>

\* ---------------------------------------------------------------------------
\* [<TTL>] [<class>] <type>   /   [<class>] [<TTL>] <type>
TtlOmissible   == IF ctx.ttlDef # "" THEN ctx.ttlDef = cur.ttl ELSE ctx.ttlLast = cur.ttl
ClassOmissible == ctx.class = cur.c

PutHead(showTtl, showClass, ttlFirst, early, s) ==
    /\ pc = "head"
    /\ showTtl \/ TtlOmissible
    /\ showClass \/ ClassOmissible
    /\ (ttlFirst = FALSE) => (showTtl /\ showClass)           \* the order only exists if both are written
    /\ early => ("paren-before-type" \in Opt /\ PSeps # {})
    /\ LET t == IF showTtl THEN <<s, cur.ttl>> ELSE <<>>
           c == IF showClass THEN <<s, cur.c>> ELSE <<>>
       IN Put((IF early THEN <<s, "(">> ELSE <<>>) \o (IF ttlFirst THEN t \o c ELSE c \o t) \o <<s, cur.t>>)
    /\ par' = IF early THEN "open" ELSE "no"
    /\ ctx' = [ctx EXCEPT !.ttlLast = IF showTtl THEN cur.ttl ELSE @, !.class = IF showClass THEN cur.c ELSE @]
    /\ pc' = "rdata"
    /\ UNCHANGED <<recs, cur, fi, cnt, done>>

\* one RDATA field: s1 [ "(" s2 ] text [ s3 ")" ]      (s2, s3 = "" : glued)
PutField(ft, s1, open, s2, close, s3) ==
    /\ pc = "rdata" /\ fi < NFields(cur)
    /\ open => (par = "no" /\ PSeps # {})
    /\ close => (par = "open" \/ open)
    /\ s1 \in (IF par = "open" THEN PSeps ELSE Seps)
    /\ open => s2 \in PSeps \cup {""}
    /\ close => s3 \in PSeps \cup {""}
    /\ (~open => s2 = "") /\ (~close => s3 = "")
    /\ ft \in FieldTexts(cur, fi + 1, par = "open" \/ open)
    /\ Put(<<s1>> \o (IF open THEN <<"(", s2>> ELSE <<>>) \o <<ft[2]>> \o (IF close THEN <<s3, ")">> ELSE <<>>))
    /\ par' = IF close THEN "closed" ELSE IF open THEN "open" ELSE par
    /\ fi' = fi + 1
    /\ UNCHANGED <<ctx, recs, pc, cur, cnt, done>>

\* a ")" still owed after the last field (group opened before the type or never closed at a field)
CloseLate(s3) ==
    /\ pc = "rdata" /\ fi = NFields(cur) /\ par = "open"
    /\ s3 \in PSeps \cup {""}
    /\ Put(<<s3, ")">>)
    /\ par' = "closed"
    /\ UNCHANGED <<ctx, recs, pc, cur, fi, cnt, done>>

\* eol = "" : the file ends without a line terminator
EndRR(s, cm, eol) ==
    /\ pc = "rdata" /\ fi = NFields(cur) /\ par # "open"
    /\ (eol = "") => cnt.rr >= MinRR
    /\ Put(Trail(cm, s) \o <<eol>>)
    /\ recs' = Append(recs, cur)
    /\ pc' = "line" /\ cur' = NoRec /\ fi' = 0 /\ par' = "no"
    /\ done' = (eol = "")
    /\ UNCHANGED <<ctx, cnt>>

CmtOpt == Comments \cup {""}

\* the choices of every action, as named actions (so that TLC's coverage is per action)
AOrigin == \E o \in Origins, form \in {"abs", "rel"}, s \in Seps, cm \in CmtOpt, eol \in Eols : PutOrigin(o, form, s, cm, eol)
ATtl    == \E t \in TtlDirs, s \in Seps, cm \in CmtOpt, eol \in Eols : PutTtl(t, s, cm, eol)
ABlank  == \E lead \in Seps \cup {""}, cm \in CmtOpt, eol \in Eols : PutBlankLine(lead, cm, eol)
AStart  == \E r \in Records, form \in {"abs", "rel", "at", "blank"} : StartRR(r, form)
AHead   == \E st \in BOOLEAN, sc \in BOOLEAN, tf \in BOOLEAN, early \in BOOLEAN, s \in Seps : PutHead(st, sc, tf, early, s)
AField  == /\ pc = "rdata" /\ fi < NFields(cur)
           /\ \E open \in BOOLEAN, close \in BOOLEAN, s1 \in Seps \cup PSeps, s2 \in PSeps \cup {""}, s3 \in PSeps \cup {""} :
                 \E ft \in FieldTexts(cur, fi + 1, par = "open" \/ open) : PutField(ft, s1, open, s2, close, s3)
AClose  == \E s3 \in PSeps \cup {""} : CloseLate(s3)
AEnd    == \E s \in Seps, cm \in CmtOpt, eol \in Eols \cup {""} : EndRR(s, cm, eol)

PNext == AOrigin \/ ATtl \/ ABlank \/ AStart \/ AHead \/ AField \/ AClose \/ AEnd \/ Finish

PSpec == PInit /\ [][PNext]_pvars

\* ---------------------------------------------------------------------------
\* requirements (state predicates on the text written so far)
Text == Cat(pieces)
\* the requirements are evaluated on complete files; every prefix that ends at an entry boundary
\* is itself a complete file (action Finish), so nothing is left out
AtEntryBoundary == done

CtxAgrees(rc) ==
    /\ rc.origin = ctx.origin /\ rc.hasOwner = ctx.hasOwner /\ rc.owner = ctx.owner
    /\ rc.class = ctx.class /\ rc.ttlDef = ctx.ttlDef /\ rc.ttlLast = ctx.ttlLast

\* C20: the file written denotes exactly the records it was written from, whatever the layout
DenotesOK(r) == r.st = "ok" /\ r.recs = RangeOf(recs) /\ CtxAgrees(r.ctx)
C20_Denotes ==
    AtEntryBoundary => DenotesOK(Read(Text, Origin0))

FlatT(seqs) == FoldLeft(LAMBDA a, t : a \o t, <<>>, seqs)      \* (FlattenSeq recurses; FoldLeft is a loop)
\* the canonical layout: one record per line, everything explicit and absolute, strings quoted
CanonLine(r) ==
    <<NameText(r.o, "abs", <<>>), " ", r.ttl, " ", r.c, " ", r.t>>
    \o FlatT([i \in 1..NFields(r) |->
          LET k == Kind(r, i) IN
          <<" ", CASE k = "name" -> NameText(r.rd[i], "abs", <<>>)
                   [] k \in {"str", "flags"} -> StrText(r.rd[i][1], "q")
                   [] OTHER      -> r.rd[i][1]>>])
    \o <<"\n">>
CanonText(rs) == Cat(FlatT([i \in DOMAIN rs |-> CanonLine(rs[i])]))

\* C20: two layouts of the same record set denote the same records (every layout is compared
\* with the canonical one)
SameRecs(a, b) == a.st = "ok" /\ b.st = "ok" /\ a.recs = b.recs
C20_LayoutIndependent ==
    (AtEntryBoundary /\ recs # <<>>) => SameRecs(Read(Text, Origin0), Read(CanonText(recs), Origin0))

PTypeOK ==
    /\ pc \in {"line", "head", "rdata"} /\ par \in {"no", "open", "closed"}
    /\ fi \in 0..20 /\ cnt.rr <= MaxRR /\ cnt.dir <= MaxDir /\ cnt.blank <= MaxBlank
    /\ (pc = "line" => par = "no")
=============================================================================
