#!/bin/sh
# MANIFEST.setup_cmd: build the harness offline from files on disk; parse every specification.
set -e
cd "$(dirname "$0")"
export CARGO_NET_OFFLINE=true
mkdir -p work evidence
( cd harness && cargo build --release --offline 2>&1 | tail -3 )
fail=0
for f in spec/*.tla; do
  case "$f" in spec/Trace_*) continue;; esac   # trace specs read IOEnv at parse time only when run
  if ! java -cp /opt/veriftools/tla/tla2tools.jar:/opt/veriftools/tla/CommunityModules-deps.jar -DTLA-Library=spec tla2sany.SANY "$f" > work/sany.out 2>&1; then
    echo "SANY failed: $f"; tail -20 work/sany.out; fail=1
  fi
done
[ $fail -eq 0 ] && echo "setup ok"
exit $fail
