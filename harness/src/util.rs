//! small shared helpers
pub fn seed_from_env() -> u64 {
    std::env::var("VERIF_SEED").ok().and_then(|s| s.parse().ok()).unwrap_or(0)
}
