//! X02 driver: zone transfer (AXFR / IXFR) message sequencing.
//!
//! Server side: real `Catalog` over real `InMemoryZoneHandler` / `SqliteZoneHandler` zones, the
//! request goes bytes-in through hook H4 (`server::verif_handle_raw_request`, i.e. the server's
//! request gate + `ResponseHandle` with TCP or UDP size semantics) and every message arriving on
//! the `BufDnsStreamHandle` receiver is decoded and projected.  The zone content the answer is
//! judged against is read from the zone handler's store (`records()`), not from the answer.
//!
//! Client side: the real transfer stream (`ClientHandle::zone_transfer` -> `ClientStreamXfr`) over
//! a scripted `DnsHandle` whose response stream yields the scripted messages and then either
//! ends or reports a lower-layer error (what `DnsMultiplexer` does on time-out / connection loss).
//!
//! `replay [--trace f]`   cases of Gen_Xfer on stdin; one verdict line per case on stdout; events
//!                        for Trace_Xfer into the trace file.
//! `record --seed S --n N --trace f`   seeded random zones / requests / scripts; events only.
//!
//! No expected values are computed here.  Client cases are compared for equality with what the
//! TLC case prescribes; server cases are only projected -- the verdict is Trace_Xfer's.
use std::collections::VecDeque;
use std::io::{self, BufRead, Write as _};
use std::net::SocketAddr;
use std::panic::AssertUnwindSafe;
use std::pin::Pin;
use std::sync::atomic::{AtomicBool, AtomicUsize, Ordering};
use std::sync::{Arc, Mutex};
use std::task::{Context, Poll, Waker};
use std::time::Duration;

use futures_util::{FutureExt, Stream, StreamExt};
use hickory_net::client::{Client, ClientHandle};
use hickory_net::runtime::{Time, TokioRuntimeProvider, TokioTime};
use hickory_net::xfer::{DnsClientStream, Protocol};
use hickory_net::{BufDnsStreamHandle, DnsHandle, NetError};
use hickory_proto::dnssec::crypto::Ed25519SigningKey;
use hickory_proto::dnssec::rdata::{DNSSECRData, DNSKEY, DS};
use hickory_proto::dnssec::{Algorithm, DigestType, DnssecSigner, Nsec3HashAlgorithm, SigningKey};
use hickory_proto::op::{SerialMessage, DnsRequest, DnsResponse, Edns, Message, MessageType, OpCode, Query, ResponseCode};
use hickory_proto::rr::rdata::{A, AAAA, CNAME, MX, NS, SOA, TXT};
use hickory_proto::rr::{DNSClass, LowerName, Name, RData, Record, RecordType};
use hickory_server::dnssec::NxProofKind;
use hickory_server::server::{Request, RequestHandler, ResponseHandler};
use hickory_server::store::in_memory::InMemoryZoneHandler;
use hickory_server::store::sqlite::SqliteZoneHandler;
use hickory_server::zone_handler::{AxfrPolicy, Catalog, ZoneHandler, ZoneType};
use rand::rngs::StdRng;
use rand::{RngExt, SeedableRng};
use serde_json::{json, Value};

static QUIET: AtomicBool = AtomicBool::new(false);

// ---------------------------------------------------------------------------------------
// concretisation of abstract zone descriptions

fn rel(name: &str, apex: &Name) -> Name {
    if name == "@" {
        return apex.clone();
    }
    if name.ends_with('.') {
        return Name::from_ascii(name).expect("absolute name");
    }
    Name::from_ascii(name).expect("relative name").append_domain(apex).expect("append")
}

fn big_txt(id: u64) -> TXT {
    // 16 strings of 250 octets: about 4 KiB of RDATA that no compression can shrink
    let mut strings = Vec::new();
    let mut x = id.wrapping_mul(0x9E37_79B9_7F4A_7C15) | 1;
    for _ in 0..16 {
        let mut s = String::with_capacity(250);
        for _ in 0..250 {
            x ^= x << 13;
            x ^= x >> 7;
            x ^= x << 17;
            s.push((b'a' + (x % 26) as u8) as char);
        }
        strings.push(s);
    }
    TXT::new(strings)
}

/// one abstract record description -> concrete records (a `bulk` description expands to many)
fn records_of(d: &Value, apex: &Name) -> Vec<Record> {
    // {"bulk": kind, "n": count, "p": prefix} or, as Gen_Xfer writes it, {"t": "BULK-<kind>", "d": count, "o": prefix}
    let bulk = match d.get("bulk").and_then(Value::as_str) {
        Some(kind) => Some((kind.to_string(), d["n"].as_u64().expect("bulk n"), d.get("p").and_then(Value::as_str).unwrap_or("h").to_string())),
        None => d.get("t").and_then(Value::as_str).and_then(|t| t.strip_prefix("BULK-")).map(|kind| {
            (kind.to_string(), d["d"].as_u64().expect("bulk count"), d["o"].as_str().expect("bulk prefix").to_string())
        }),
    };
    if let Some((kind, n, p)) = bulk {
        return (0..n)
            .map(|i| {
                let owner = rel(&format!("{p}{i}"), apex);
                let data = match kind.as_str() {
                    "A" => RData::A(A::new(10, (i >> 16) as u8, (i >> 8) as u8, i as u8)),
                    "TXT" => RData::TXT(TXT::new(vec![format!("bulk-{i}")])),
                    "BIGTXT" => RData::TXT(big_txt(1000 + i)),
                    k => panic!("bulk kind {k}"),
                };
                Record::from_rdata(owner, 300, data)
            })
            .collect();
    }
    let owner = rel(d["o"].as_str().expect("owner"), apex);
    let k = d.get("d").and_then(Value::as_u64).unwrap_or(0);
    let x = d.get("x").and_then(Value::as_str).filter(|s| !s.is_empty()).map(|s| rel(s, apex));
    let ttl = d.get("ttl").and_then(Value::as_u64).unwrap_or(3600) as u32;
    let data = match d["t"].as_str().expect("type") {
        "SOA" => RData::SOA(SOA::new(rel("ns", apex), rel("admin", apex), k as u32, 3600, 600, 86400, 300)),
        "NS" => RData::NS(NS(x.expect("NS target"))),
        "CNAME" => RData::CNAME(CNAME(x.expect("CNAME target"))),
        "MX" => RData::MX(MX::new(10, x.expect("MX target"))),
        "A" => RData::A(A::new(192, 0, (k >> 8) as u8, k as u8)),
        "AAAA" => RData::AAAA(AAAA::new(0x2001, 0xdb8, 0, 0, 0, 0, (k >> 16) as u16, k as u16)),
        "TXT" => RData::TXT(TXT::new(vec![format!("t{k}")])),
        "BIGTXT" => RData::TXT(big_txt(k)),
        "DS" => RData::DNSSEC(DNSSECRData::DS(DS::new(k as u16, Algorithm::ED25519, DigestType::SHA256, vec![k as u8; 32]))),
        t => panic!("unknown record type {t}"),
    };
    vec![Record::from_rdata(owner, ttl, data)]
}

fn fnv(b: &[u8]) -> u64 {
    let mut h: u64 = 0xcbf29ce484222325;
    for x in b {
        h ^= *x as u64;
        h = h.wrapping_mul(0x100000001b3);
    }
    h
}

/// the abstract alphabet of records: one string per RR, the same function for what is stored in a
/// zone and for what arrives in a message (owner lower-cased; long RDATA by length and digest)
fn rr_str(r: &Record) -> String {
    let rd = format!("{}", r.data);
    let rd = if rd.len() > 90 { format!("#{}:{:016x}", rd.len(), fnv(rd.as_bytes())) } else { rd };
    let ty = match &r.data {
        RData::DNSSEC(DNSSECRData::RRSIG(sig)) => format!("RRSIG({})", sig.input().type_covered),
        _ => r.record_type().to_string(),
    };
    format!("{} {} {} {} {}", r.name.to_lowercase(), r.ttl, r.dns_class, ty, rd)
}

// ---------------------------------------------------------------------------------------
// the served world

enum Handler {
    Mem(Arc<InMemoryZoneHandler<TokioRuntimeProvider>>),
    Sql(Arc<SqliteZoneHandler<TokioRuntimeProvider>>),
}

struct Zone {
    apex: Name,
    handler: Handler,
}

struct World {
    catalog: Arc<Catalog>,
    zones: Vec<Zone>,
}

struct SharedCatalog(Arc<Catalog>);

#[async_trait::async_trait]
impl RequestHandler for SharedCatalog {
    async fn handle_request<R: ResponseHandler, T: Time>(&self, request: &Request, response_handle: R) {
        self.0.handle_request::<R, T>(request, response_handle).await
    }
}

fn policy_of(p: &str) -> AxfrPolicy {
    match p {
        "all" => AxfrPolicy::AllowAll,
        "deny" => AxfrPolicy::Deny,
        "signed" => AxfrPolicy::AllowSigned,
        o => panic!("policy {o}"),
    }
}

fn build_zone(apex: &Name, descs: &[Value], sign: &str, store: &str, policy: &str) -> Result<Zone, String> {
    let proof = match sign {
        "none" => None,
        "nsec" => Some(NxProofKind::Nsec),
        "nsec3" => Some(NxProofKind::Nsec3 { algorithm: Nsec3HashAlgorithm::SHA1, salt: Arc::from(Vec::<u8>::new()), iterations: 0, opt_out: false }),
        o => return Err(format!("sign {o}")),
    };
    // like SqliteZoneHandler::try_from_config: the outer handler applies the policy, the inner one allows
    let inner_policy = if store == "sqlite" { AxfrPolicy::AllowAll } else { policy_of(policy) };
    let mut mem = InMemoryZoneHandler::<TokioRuntimeProvider>::empty(apex.clone(), ZoneType::Primary, inner_policy, proof);
    let mut serial = 0;
    for d in descs.iter().filter(|d| d.get("t").and_then(Value::as_str) == Some("SOA")) {
        serial = d["d"].as_u64().unwrap_or(1) as u32;
        for r in records_of(d, apex) {
            if !mem.upsert_mut(r, serial) {
                return Err(format!("SOA rejected: {d}"));
            }
        }
    }
    for d in descs.iter().filter(|d| d.get("t").and_then(Value::as_str) != Some("SOA")) {
        for r in records_of(d, apex) {
            if !mem.upsert_mut(r, serial) {
                return Err(format!("record rejected by upsert: {d}"));
            }
        }
    }
    if sign != "none" {
        let key = Ed25519SigningKey::from_pkcs8(&Ed25519SigningKey::generate_pkcs8().map_err(|e| e.to_string())?).map_err(|e| e.to_string())?;
        let dnskey = DNSKEY::from_key(&key.to_public_key().map_err(|e| e.to_string())?);
        mem.add_zone_signing_key_mut(DnssecSigner::new(dnskey, Box::new(key), apex.clone(), Duration::from_secs(86_400)))
            .map_err(|e| e.to_string())?;
        mem.secure_zone_mut().map_err(|e| e.to_string())?;
    }
    let handler = if store == "sqlite" {
        Handler::Sql(Arc::new(SqliteZoneHandler::new(mem, policy_of(policy), false, sign != "none")))
    } else {
        Handler::Mem(Arc::new(mem))
    };
    Ok(Zone { apex: apex.clone(), handler })
}

const APEX: &str = "example.";

/// the other zones of the catalog: a real child zone below the delegation `sub`, and a sibling
fn other_zones() -> Vec<(Name, Vec<Value>)> {
    vec![
        (
            Name::from_ascii("sub.example.").unwrap(),
            vec![
                json!({"o":"@","t":"SOA","d":41}),
                json!({"o":"@","t":"NS","x":"ns"}),
                json!({"o":"ns","t":"A","d":201}),
                json!({"o":"www","t":"A","d":202}),
                json!({"o":"deep.er","t":"TXT","d":203}),
            ],
        ),
        (
            Name::from_ascii("other.").unwrap(),
            vec![
                json!({"o":"@","t":"SOA","d":77}),
                json!({"o":"@","t":"NS","x":"ns"}),
                json!({"o":"ns","t":"A","d":211}),
                json!({"o":"www","t":"AAAA","d":212}),
            ],
        ),
    ]
}

fn build_world(c: &Value) -> Result<World, String> {
    let apex = Name::from_ascii(APEX).unwrap();
    let descs = c["zone"].as_array().ok_or("zone")?;
    let sign = c["sign"].as_str().unwrap_or("none");
    let store = c["store"].as_str().unwrap_or("memory");
    let policy = c["policy"].as_str().unwrap_or("all");
    let mut zones = vec![build_zone(&apex, descs, sign, store, policy)?];
    if c["others"].as_bool().unwrap_or(false) {
        for (a, d) in other_zones() {
            zones.push(build_zone(&a, &d, sign, store, policy)?);
        }
    }
    let mut catalog = Catalog::new();
    for z in &zones {
        let h: Arc<dyn ZoneHandler> = match &z.handler {
            Handler::Mem(m) => m.clone(),
            Handler::Sql(s) => s.clone(),
        };
        catalog.upsert(LowerName::new(&z.apex), vec![h]);
    }
    Ok(World { catalog: Arc::new(catalog), zones })
}

/// the zone as stored: (serial, SOA string, other records, RRSIG records)
async fn stored(z: &Zone) -> Value {
    let mut soa = Vec::new();
    let mut rest = Vec::new();
    let mut sigs = Vec::new();
    let mut serial = 0u32;
    macro_rules! walk {
        ($records:expr) => {
            for (_k, set) in $records.iter() {
                for r in set.records_without_rrsigs() {
                    if let RData::SOA(s) = &r.data {
                        serial = s.serial;
                        soa.push(rr_str(r));
                    } else {
                        rest.push(rr_str(r));
                    }
                }
                for r in set.rrsigs() {
                    sigs.push(rr_str(r));
                }
            }
        };
    }
    match &z.handler {
        Handler::Mem(m) => {
            let recs = m.records().await;
            walk!(recs);
        }
        Handler::Sql(s) => {
            let recs = s.records().await;
            walk!(recs);
        }
    }
    json!({"apex": z.apex.to_lowercase().to_string(), "serial": serial, "soa": soa, "rest": rest, "sigs": sigs})
}

// ---------------------------------------------------------------------------------------
// request and response

fn qname_of(kind: &str) -> Name {
    Name::from_ascii(match kind {
        "apex" => "example.",
        "apexUpper" => "EXAMPLE.",
        "below" => "www.example.",
        "belowMissing" => "nx.example.",
        "child" => "sub.example.",
        "sibling" => "other.",
        "nozone" => "nowhere.",
        o => panic!("qname kind {o}"),
    })
    .unwrap()
}

fn request_message(req: &Value, serial_of_target: u32) -> Message {
    let id = req["id"].as_u64().unwrap_or(4660) as u16;
    let mut m = Message::new(id, MessageType::Query, OpCode::Query);
    m.metadata.recursion_desired = false;
    let qname = qname_of(req["qname"].as_str().unwrap_or("apex"));
    let qtype = match req["qtype"].as_str().unwrap_or("AXFR") {
        "AXFR" => RecordType::AXFR,
        "IXFR" => RecordType::IXFR,
        o => panic!("qtype {o}"),
    };
    let mut q = Query::new(qname.clone(), qtype);
    q.set_query_class(DNSClass::IN);
    m.add_query(q);
    let have = req["have"].as_str().unwrap_or("none");
    if have != "none" {
        let s = match have {
            "older" => serial_of_target.wrapping_sub(1),
            "same" => serial_of_target,
            "newer" => serial_of_target.wrapping_add(1),
            o => panic!("have {o}"),
        };
        // RFC 1995 3: the client's SOA travels in the authority section
        let soa = SOA::new(rel("ns", &qname), rel("admin", &qname), s, 3600, 600, 86400, 300);
        m.add_authority(Record::from_rdata(qname.clone(), 0, RData::SOA(soa)));
    }
    let edns = req["edns"].as_u64().unwrap_or(0);
    if edns > 0 {
        let mut e = Edns::new();
        e.set_max_payload(edns as u16).set_version(0);
        e.set_dnssec_ok(req["do"].as_bool().unwrap_or(false));
        m.set_edns(e);
    }
    m
}

fn project_msg(bytes: &[u8], request: &Message) -> Value {
    let m = match Message::from_vec(bytes) {
        Ok(m) => m,
        Err(e) => return json!({"undecodable": e.to_string(), "len": bytes.len(), "an": [], "ns": [], "ar": [], "rc": 0 - 1,
                                 "id": 0 - 1, "qr": false, "op": 0 - 1, "aa": false, "tc": false, "q": "other"}),
    };
    let rq = &request.queries[0];
    let q = if m.queries.is_empty() {
        "empty"
    } else if m.queries.len() == 1
        && m.queries[0].name.to_lowercase() == rq.name.to_lowercase()
        && m.queries[0].query_type == rq.query_type
        && m.queries[0].query_class == rq.query_class
    {
        "echo"
    } else {
        "other"
    };
    let sec = |v: &[Record]| v.iter().map(rr_str).collect::<Vec<_>>();
    json!({
        "id": m.metadata.id, "qr": m.metadata.message_type == MessageType::Response, "op": u8::from(m.metadata.op_code),
        "rc": u16::from(m.metadata.response_code), "aa": m.metadata.authoritative, "tc": m.metadata.truncation,
        "q": q, "an": sec(&m.answers), "ns": sec(&m.authorities), "ar": sec(&m.additionals), "len": bytes.len(),
    })
}

/// one request through the gate and the catalog; every message that comes back
async fn exchange(w: &World, bytes: Vec<u8>, proto: Protocol) -> Result<Vec<Vec<u8>>, String> {
    let src: SocketAddr = "192.0.2.9:4000".parse().unwrap();
    let (handle, mut rx) = BufDnsStreamHandle::with_buffer_size(src, 8192);
    let fut = hickory_server::server::verif_handle_raw_request(
        SharedCatalog(w.catalog.clone()),
        Vec::new(),
        Vec::new(),
        SerialMessage::new(bytes, src),
        proto,
        handle,
    );
    QUIET.store(true, Ordering::Relaxed);
    let r = AssertUnwindSafe(fut).catch_unwind().await;
    QUIET.store(false, Ordering::Relaxed);
    if r.is_err() {
        return Err("PANIC".into());
    }
    let mut out = Vec::new();
    while let Some(Some(m)) = rx.next().now_or_never() {
        out.push(m.into_parts().0);
    }
    Ok(out)
}

async fn run_server_case(c: &Value, id: &str) -> Result<Value, String> {
    let w = build_world(c)?;
    let req = &c["req"];
    let qk = req["qname"].as_str().unwrap_or("apex");
    let target_apex = match qk {
        "apex" | "apexUpper" => Some("example."),
        "child" => Some("sub.example."),
        "sibling" => Some("other."),
        _ => None,
    };
    let mut zones = Vec::new();
    for z in &w.zones {
        zones.push(stored(z).await);
    }
    // 0 = the query name is not the apex of a served zone
    let target = target_apex.and_then(|a| zones.iter().position(|z| z["apex"] == a)).map(|i| i + 1).unwrap_or(0);
    let serial = if target > 0 { zones[target - 1]["serial"].as_u64().unwrap() as u32 } else { zones[0]["serial"].as_u64().unwrap() as u32 };
    let request = request_message(req, serial);
    let bytes = request.to_vec().map_err(|e| format!("encode request: {e}"))?;
    let proto = match req["proto"].as_str().unwrap_or("tcp") {
        "tcp" => Protocol::Tcp,
        "udp" => Protocol::Udp,
        o => return Err(format!("proto {o}")),
    };
    let (obs, msgs) = match exchange(&w, bytes, proto).await {
        Ok(ms) => ("ok", ms.iter().map(|b| project_msg(b, &request)).collect::<Vec<_>>()),
        Err(_) => ("PANIC", Vec::new()),
    };
    let mut ev = json!({
        "ev": "server", "case": id, "store": c["store"].as_str().unwrap_or("memory"), "policy": c["policy"].as_str().unwrap_or("all"),
        "sign": c["sign"].as_str().unwrap_or("none"),
        "req": {"proto": req["proto"].as_str().unwrap_or("tcp"), "qtype": req["qtype"].as_str().unwrap_or("AXFR"), "qname": qk,
                "edns": req["edns"].as_u64().unwrap_or(0), "do": req["do"].as_bool().unwrap_or(false),
                "have": req["have"].as_str().unwrap_or("none"), "id": request.metadata.id},
        "target": target, "zones": zones, "msgs": msgs, "obs": obs,
    });
    if let Some(d) = c["exp"]["duty"].as_str() {
        ev["expDuty"] = json!(d);
    }
    Ok(ev)
}

// ---------------------------------------------------------------------------------------
// client side: the real transfer stream over a scripted response stream

enum Item {
    Msg(DnsResponse),
    Err,
}

struct ScriptStream {
    items: VecDeque<Item>,
    polls: Arc<AtomicUsize>,
    msgs_taken: Arc<AtomicUsize>,
}

impl Stream for ScriptStream {
    type Item = Result<DnsResponse, NetError>;
    fn poll_next(mut self: Pin<&mut Self>, _cx: &mut Context<'_>) -> Poll<Option<Self::Item>> {
        self.polls.fetch_add(1, Ordering::SeqCst);
        Poll::Ready(match self.items.pop_front() {
            Some(Item::Msg(m)) => {
                self.msgs_taken.fetch_add(1, Ordering::SeqCst);
                Some(Ok(m))
            }
            Some(Item::Err) => Some(Err(NetError::Timeout)),
            None => None,
        })
    }
}

#[derive(Clone)]
struct Scripted {
    script: Arc<Mutex<Option<VecDeque<Item>>>>,
    polls: Arc<AtomicUsize>,
    msgs_taken: Arc<AtomicUsize>,
    sent: Arc<Mutex<Vec<Message>>>,
}

impl DnsHandle for Scripted {
    type Response = ScriptStream;
    type Runtime = TokioRuntimeProvider;
    fn send(&self, request: DnsRequest) -> ScriptStream {
        let (m, _) = request.into_parts();
        self.sent.lock().unwrap().push(m);
        let items = self.script.lock().unwrap().take().unwrap_or_default();
        ScriptStream { items, polls: self.polls.clone(), msgs_taken: self.msgs_taken.clone() }
    }
}

fn client_soa(origin: &Name, serial: u32, mname_is_origin: bool) -> SOA {
    let mname = if mname_is_origin { origin.clone() } else { rel("ns1", origin) };
    SOA::new(mname, rel("admin", origin), serial, 3600, 600, 86400, 300)
}

/// abstract record of a script: ["soa", serial] | ["rr", k]
fn script_record(v: &Value, origin: &Name) -> Record {
    let k = v[1].as_u64().expect("record number");
    match v[0].as_str().expect("record kind") {
        "soa" => Record::from_rdata(origin.clone(), 3600, RData::SOA(client_soa(origin, k as u32, false))),
        "rr" => Record::from_rdata(rel(&format!("h{k}"), origin), 300, RData::A(A::new(10, 0, (k >> 8) as u8, k as u8))),
        o => panic!("script record kind {o}"),
    }
}

fn run_client_case(c: &Value, id: &str) -> Value {
    let origin = Name::from_ascii(APEX).unwrap();
    let mode = c["mode"].as_str().unwrap_or("axfr");
    let have = c["have"].as_u64().unwrap_or(0) as u32;
    let term = c["term"].as_str().unwrap_or("end");
    let mut items = VecDeque::new();
    for (i, m) in c["script"].as_array().expect("script").iter().enumerate() {
        let mut msg = Message::new(7000 + i as u16, MessageType::Response, OpCode::Query);
        msg.metadata.response_code = ResponseCode::from(0, m["rc"].as_u64().unwrap_or(0) as u8);
        msg.metadata.authoritative = true;
        if i == 0 {
            let mut q = Query::new(origin.clone(), if mode == "ixfr" { RecordType::IXFR } else { RecordType::AXFR });
            q.set_query_class(DNSClass::IN);
            msg.add_query(q);
        }
        msg.insert_answers(m["an"].as_array().expect("an").iter().map(|r| script_record(r, &origin)).collect());
        items.push_back(Item::Msg(DnsResponse::from_message(msg).expect("response")));
    }
    if term == "err" {
        items.push_back(Item::Err);
    }
    let h = Scripted {
        script: Arc::new(Mutex::new(Some(items))),
        polls: Arc::new(AtomicUsize::new(0)),
        msgs_taken: Arc::new(AtomicUsize::new(0)),
        sent: Arc::new(Mutex::new(Vec::new())),
    };
    let nscript = c["script"].as_array().unwrap().len();
    let (h2, origin2) = (h.clone(), origin.clone());
    QUIET.store(true, Ordering::Relaxed);
    let res = std::panic::catch_unwind(AssertUnwindSafe(move || {
        let mut handle = h2;
        // the stream cases use a last-known SOA whose MNAME is the zone name (see the `request` cases)
        let last = if mode == "ixfr" { Some(client_soa(&origin2, have, true)) } else { None };
        let mut stream = handle.zone_transfer(origin2, last);
        let mut out: Vec<Value> = Vec::new();
        let mut ended = false;
        // every poll of the scripted stream is Ready, so the transfer stream never parks
        for _ in 0..(nscript + 4) {
            match stream.next().now_or_never() {
                Some(Some(Ok(r))) => out.push(json!({"r": "ok", "id": r.metadata.id, "n": r.answers.len()})),
                Some(Some(Err(_))) => out.push(json!({"r": "err"})),
                Some(None) => {
                    ended = true;
                    break;
                }
                None => {
                    out.push(json!({"r": "pending"}));
                    break;
                }
            }
        }
        (out, ended)
    }));
    QUIET.store(false, Ordering::Relaxed);
    let (obs, out, ended) = match res {
        Ok((o, e)) => ("ok", o, e),
        Err(_) => ("PANIC", Vec::new(), false),
    };
    // harness consistency: the i-th delivered message is the i-th scripted one
    let mut k = 0;
    let mut in_order = true;
    for it in &out {
        if it["r"] == "ok" {
            if it["id"].as_u64() != Some(7000 + k as u64) {
                in_order = false;
            }
            k += 1;
        }
    }
    let items: Vec<&str> = out.iter().map(|i| i["r"].as_str().unwrap()).collect();
    json!({
        "ev": "client", "case": id, "via": "direct", "mode": mode, "have": have, "script": c["script"], "term": term,
        "items": items, "taken": h.msgs_taken.load(Ordering::SeqCst), "polls": h.polls.load(Ordering::SeqCst),
        "ended": ended, "inOrder": in_order, "obs": obs,
    })
}

// ---------------------------------------------------------------------------------------
// client side, whole stack: the real `Client` (DnsExchange + DnsMultiplexer, 5 s request time-out)
// over a scripted connection, on tokio's paused clock

#[derive(Default)]
struct Inbound {
    q: VecDeque<Vec<u8>>,
    closed: bool,
    waker: Option<Waker>,
}

struct Peer {
    inb: Arc<Mutex<Inbound>>,
    addr: SocketAddr,
}

impl Stream for Peer {
    type Item = Result<SerialMessage, NetError>;
    fn poll_next(self: Pin<&mut Self>, cx: &mut Context<'_>) -> Poll<Option<Self::Item>> {
        let mut inb = self.inb.lock().unwrap();
        match inb.q.pop_front() {
            Some(b) => Poll::Ready(Some(Ok(SerialMessage::new(b, self.addr)))),
            None if inb.closed => Poll::Ready(None),
            None => {
                inb.waker = Some(cx.waker().clone());
                Poll::Pending
            }
        }
    }
}

impl DnsClientStream for Peer {
    type Time = TokioTime;
    fn name_server_addr(&self) -> SocketAddr {
        self.addr
    }
}

/// term "timeout": the peer goes silent, the multiplexer's request time-out fires;
/// term "close": the peer closes the connection
async fn run_client_stack_case(c: &Value, id: &str) -> Value {
    let origin = Name::from_ascii(APEX).unwrap();
    let mode = c["mode"].as_str().unwrap_or("axfr");
    let have = c["have"].as_u64().unwrap_or(0) as u32;
    let term = c["term"].as_str().unwrap_or("timeout");
    let addr: SocketAddr = "192.0.2.53:53".parse().unwrap();
    let inb = Arc::new(Mutex::new(Inbound::default()));
    let (handle, mut outbound) = BufDnsStreamHandle::new(addr);
    let (mut client, bg) = Client::<TokioRuntimeProvider>::new(Peer { inb: inb.clone(), addr }, handle);
    let bg_task = tokio::spawn(bg);
    let last = if mode == "ixfr" { Some(client_soa(&origin, have, true)) } else { None };
    let nscript = c["script"].as_array().expect("script").len();
    QUIET.store(true, Ordering::Relaxed);
    let mut stream = client.zone_transfer(origin.clone(), last);
    let collector = tokio::spawn(async move {
        let mut out: Vec<Value> = Vec::new();
        let mut ended = false;
        while out.len() < nscript + 4 {
            match stream.next().await {
                Some(Ok(r)) => out.push(json!({"r": "ok", "n": r.answers.len()})),
                Some(Err(_)) => out.push(json!({"r": "err"})),
                None => {
                    ended = true;
                    break;
                }
            }
        }
        (out, ended)
    });
    // the request as it leaves the multiplexer carries the ID the replies must have
    let request_id = match tokio::time::timeout(Duration::from_secs(1), outbound.next()).await {
        Ok(Some(sm)) => Message::from_vec(&sm.into_parts().0).map(|m| m.metadata.id).ok(),
        _ => None,
    };
    let Some(request_id) = request_id else {
        bg_task.abort();
        collector.abort();
        QUIET.store(false, Ordering::Relaxed);
        return json!({"ev": "harness-error", "case": id, "error": "no request left the multiplexer"});
    };
    let wake = |inb: &Arc<Mutex<Inbound>>| {
        if let Some(w) = inb.lock().unwrap().waker.take() {
            w.wake();
        }
    };
    for (i, m) in c["script"].as_array().unwrap().iter().enumerate() {
        let mut msg = Message::new(request_id, MessageType::Response, OpCode::Query);
        msg.metadata.response_code = ResponseCode::from(0, m["rc"].as_u64().unwrap_or(0) as u8);
        msg.metadata.authoritative = true;
        if i == 0 {
            let mut q = Query::new(origin.clone(), if mode == "ixfr" { RecordType::IXFR } else { RecordType::AXFR });
            q.set_query_class(DNSClass::IN);
            msg.add_query(q);
        }
        msg.insert_answers(m["an"].as_array().expect("an").iter().map(|r| script_record(r, &origin)).collect());
        inb.lock().unwrap().q.push_back(msg.to_vec().expect("encode"));
        wake(&inb);
        // one message at a time, everybody runs in between (a burst of more than nine messages of one
        // request inside one poll of the multiplexer loses messages: finding of C16, not judged here)
        for _ in 0..6 {
            tokio::task::yield_now().await;
        }
    }
    if term == "close" {
        inb.lock().unwrap().closed = true;
        wake(&inb);
    }
    // paused clock: when every task is idle, time jumps to the next timer (the request time-out)
    let res = tokio::time::timeout(Duration::from_secs(600), collector).await;
    QUIET.store(false, Ordering::Relaxed);
    bg_task.abort();
    let (obs, out, ended) = match res {
        Ok(Ok((o, e))) => ("ok", o, e),
        Ok(Err(_)) => ("PANIC", Vec::new(), false),
        Err(_) => ("HANG", Vec::new(), false),
    };
    let items: Vec<&str> = out.iter().map(|i| i["r"].as_str().unwrap()).collect();
    json!({
        "ev": "client", "case": id, "via": "stack", "mode": mode, "have": have, "script": c["script"], "term": term,
        "items": items, "taken": 0, "polls": 0, "ended": ended, "inOrder": true, "obs": obs,
    })
}

// ---------------------------------------------------------------------------------------
// end to end: the real client stack asks the real server (in-process), whose messages are fed
// back one by one; then the connection stays silent (the server keeps it open) until the client's
// request time-out

async fn run_e2e_case(c: &Value, id: &str) -> Result<Value, String> {
    let w = build_world(c)?;
    let mut zones = Vec::new();
    for z in &w.zones {
        zones.push(stored(z).await);
    }
    let serial = zones[0]["serial"].as_u64().unwrap() as u32;
    let origin = Name::from_ascii(APEX).unwrap();
    let mode = c["mode"].as_str().unwrap_or("axfr");
    let have = match c["have"].as_str().unwrap_or("none") {
        "older" => serial.wrapping_sub(1),
        "same" => serial,
        "newer" => serial.wrapping_add(1),
        _ => 0,
    };
    let addr: SocketAddr = "192.0.2.53:53".parse().unwrap();
    let inb = Arc::new(Mutex::new(Inbound::default()));
    let (handle, mut outbound) = BufDnsStreamHandle::new(addr);
    let (mut client, bg) = Client::<TokioRuntimeProvider>::new(Peer { inb: inb.clone(), addr }, handle);
    let bg_task = tokio::spawn(bg);
    let last = if mode == "ixfr" { Some(client_soa(&origin, have, true)) } else { None };
    QUIET.store(true, Ordering::Relaxed);
    let mut stream = client.zone_transfer(origin.clone(), last);
    let collector = tokio::spawn(async move {
        let mut items: Vec<&'static str> = Vec::new();
        let mut delivered: Vec<String> = Vec::new();
        let mut ended = false;
        while items.len() < 20_000 {
            match stream.next().await {
                Some(Ok(r)) => {
                    items.push("ok");
                    delivered.extend(r.answers.iter().map(rr_str));
                }
                Some(Err(_)) => items.push("err"),
                None => {
                    ended = true;
                    break;
                }
            }
        }
        (items, delivered, ended)
    });
    let request = match tokio::time::timeout(Duration::from_secs(1), outbound.next()).await {
        Ok(Some(sm)) => sm.into_parts().0,
        _ => {
            bg_task.abort();
            collector.abort();
            QUIET.store(false, Ordering::Relaxed);
            return Err("no request left the multiplexer".into());
        }
    };
    let answers = exchange(&w, request, Protocol::Tcp).await;
    QUIET.store(true, Ordering::Relaxed);
    let (server_obs, answers) = match answers {
        Ok(a) => ("ok", a),
        Err(_) => ("PANIC", Vec::new()),
    };
    let summary: Vec<Value> = answers
        .iter()
        .map(|b| match Message::from_vec(b) {
            Ok(m) => json!({"rc": u16::from(m.metadata.response_code), "tc": m.metadata.truncation, "an": m.answers.len(), "len": b.len()}),
            Err(_) => json!({"rc": 0 - 1, "tc": false, "an": 0, "len": b.len()}),
        })
        .collect();
    for b in answers {
        inb.lock().unwrap().q.push_back(b);
        if let Some(wk) = inb.lock().unwrap().waker.take() {
            wk.wake();
        }
        for _ in 0..6 {
            tokio::task::yield_now().await;
        }
    }
    let res = tokio::time::timeout(Duration::from_secs(600), collector).await;
    QUIET.store(false, Ordering::Relaxed);
    bg_task.abort();
    let (obs, items, delivered, ended) = match res {
        Ok(Ok((i, d, e))) => (server_obs, i, d, e),
        Ok(Err(_)) => ("PANIC", Vec::new(), Vec::new(), false),
        Err(_) => ("HANG", Vec::new(), Vec::new(), false),
    };
    Ok(json!({
        "ev": "e2e", "case": id, "store": c["store"].as_str().unwrap_or("memory"), "policy": c["policy"].as_str().unwrap_or("all"),
        "mode": mode, "have": c["have"].as_str().unwrap_or("none"), "zone": zones[0], "server": summary,
        "items": items, "ended": ended, "delivered": delivered, "obs": obs,
    }))
}

/// the transfer request the client builds (RFC 5936 2.1, RFC 1995 3)
fn run_request_case(c: &Value, id: &str) -> Value {
    let origin = Name::from_ascii(APEX).unwrap();
    let mode = c["mode"].as_str().unwrap_or("axfr");
    let have = c["have"].as_u64().unwrap_or(0) as u32;
    let mname = c["mname"].as_str().unwrap_or("ns");
    let h = Scripted {
        script: Arc::new(Mutex::new(Some(VecDeque::new()))),
        polls: Arc::new(AtomicUsize::new(0)),
        msgs_taken: Arc::new(AtomicUsize::new(0)),
        sent: Arc::new(Mutex::new(Vec::new())),
    };
    let (h2, origin2) = (h.clone(), origin.clone());
    QUIET.store(true, Ordering::Relaxed);
    let res = std::panic::catch_unwind(AssertUnwindSafe(move || {
        let mut handle = h2;
        let last = if mode == "ixfr" { Some(client_soa(&origin2, have, mname == "origin")) } else { None };
        let _stream = handle.zone_transfer(origin2, last);
    }));
    QUIET.store(false, Ordering::Relaxed);
    let sent = h.sent.lock().unwrap();
    let mut ev = json!({"ev": "request", "case": id, "mode": mode, "have": have, "mname": mname,
                        "obs": if res.is_ok() { "ok" } else { "PANIC" }, "sent": sent.len(),
                        "qtype": "", "qnameOk": false, "qclassIn": false, "nq": 0, "opQuery": false, "auth": []});
    if let Some(m) = sent.first() {
        ev["nq"] = json!(m.queries.len());
        ev["opQuery"] = json!(m.metadata.op_code == OpCode::Query && m.metadata.message_type == MessageType::Query);
        if let Some(q) = m.queries.first() {
            ev["qtype"] = json!(q.query_type.to_string());
            ev["qnameOk"] = json!(q.name.to_lowercase() == origin.to_lowercase());
            ev["qclassIn"] = json!(q.query_class == DNSClass::IN);
        }
        ev["auth"] = m
            .authorities
            .iter()
            .map(|r| {
                let (is_soa, serial) = match &r.data {
                    RData::SOA(s) => (true, s.serial as u64),
                    _ => (false, 0),
                };
                json!({"soa": is_soa, "serial": serial, "ownerOk": r.name.to_lowercase() == origin.to_lowercase()})
            })
            .collect();
    }
    ev
}

// ---------------------------------------------------------------------------------------
// random cases (record mode)

fn random_zone(rng: &mut StdRng) -> Vec<Value> {
    let mut z = vec![json!({"o":"@","t":"SOA","d": rng.random_range(2..4_000_000u64)}), json!({"o":"@","t":"NS","x":"ns"})];
    if rng.random_bool(0.15) {
        return z; // apex only
    }
    z.push(json!({"o":"ns","t":"A","d":1}));
    let names = ["www", "mail", "a.b.c", "*.w", "x.y", "ftp", "_srv._tcp", "UPPER", "sub", "ns.sub", "below.sub", "z"];
    let n = rng.random_range(0..24);
    for i in 0..n {
        let o = names[rng.random_range(0..names.len())];
        let d = 10 + i as u64;
        z.push(match rng.random_range(0..7) {
            0 | 1 => {
                let ttl = [300, 3600, 86400][rng.random_range(0..3)];
                json!({"o": o, "t": "A", "d": d, "ttl": ttl})
            }
            2 => json!({"o": o, "t": "AAAA", "d": d}),
            3 => json!({"o": o, "t": "TXT", "d": d}),
            4 => json!({"o": o, "t": "MX", "x": "mail"}),
            5 => json!({"o": format!("c{i}"), "t": "CNAME", "x": "www"}),
            _ => json!({"o": "sub", "t": "NS", "x": "ns.sub"}),
        });
    }
    match rng.random_range(0..10) {
        0 => z.push(json!({"bulk":"A","n": rng.random_range(2500..6000u64)})),
        1 => z.push(json!({"bulk":"BIGTXT","n": rng.random_range(10..30u64)})),
        2 => z.push(json!({"bulk":"TXT","n": rng.random_range(100..1500u64), "p": "t"})),
        _ => {}
    }
    // a zone is a set of records
    let mut seen = std::collections::HashSet::new();
    z.retain(|d| {
        let mut k = d.clone();
        if let Some(o) = k.as_object_mut() {
            o.remove("ttl");
        }
        seen.insert(k.to_string())
    });
    // one TTL per RRset (RFC 2181 5.2): the first one given wins
    let mut ttl_of: std::collections::HashMap<(String, String), Value> = Default::default();
    for d in z.iter_mut() {
        if let (Some(o), Some(t)) = (d.get("o").and_then(Value::as_str), d.get("t").and_then(Value::as_str)) {
            let key = (o.to_ascii_lowercase(), t.to_string());
            let ttl = d.get("ttl").cloned().unwrap_or(json!(3600));
            let first = ttl_of.entry(key).or_insert(ttl).clone();
            d["ttl"] = first;
        }
    }
    z
}

fn random_server_case(rng: &mut StdRng) -> Value {
    let pick = |rng: &mut StdRng, xs: &[&str]| xs[rng.random_range(0..xs.len())].to_string();
    let qtype = if rng.random_bool(0.75) { "AXFR" } else { "IXFR" };
    let have = if qtype == "IXFR" { pick(rng, &["older", "same", "newer"]) } else { "none".to_string() };
    let edns = [0u64, 0, 512, 1232, 4096][rng.random_range(0..5)];
    json!({
        "kind": "server", "zone": random_zone(rng),
        "sign": pick(rng, &["none", "none", "none", "nsec", "nsec3"]),
        "store": pick(rng, &["memory", "sqlite"]),
        "policy": pick(rng, &["all", "all", "all", "all", "deny", "signed"]),
        "others": rng.random_bool(0.5),
        "req": {"proto": pick(rng, &["tcp", "tcp", "tcp", "udp"]), "qtype": qtype,
                "qname": pick(rng, &["apex", "apex", "apex", "apex", "apexUpper", "below", "belowMissing", "child", "sibling", "nozone"]),
                "edns": edns, "do": edns > 0 && rng.random_bool(0.5), "have": have, "id": rng.random_range(0..65536u64)},
    })
}

fn random_client_case(rng: &mut StdRng) -> Value {
    let s = rng.random_range(3..9u64);
    let mode = if rng.random_bool(0.7) { "axfr" } else { "ixfr" };
    let have = if mode == "ixfr" { [s - 1, s - 2, s, s + 1][rng.random_range(0..4)] } else { 0 };
    let soa = |x: u64| json!(["soa", x]);
    let rr = |x: u64| json!(["rr", x]);
    // a well-formed record sequence ...
    let mut recs: Vec<Value> = vec![soa(s)];
    let n = rng.random_range(0..14u64);
    if mode == "ixfr" && rng.random_bool(0.5) {
        // incremental: difference sequences old -> new, oldest first (RFC 1995 4)
        let first = s - rng.random_range(1..3u64);
        let mut k = 100;
        for v in first..s {
            recs.push(soa(v));
            for _ in 0..rng.random_range(0..3) {
                recs.push(rr(k));
                k += 1;
            }
            recs.push(soa(v + 1));
            for _ in 0..rng.random_range(0..3) {
                recs.push(rr(k));
                k += 1;
            }
        }
        recs.push(soa(s));
    } else if mode == "ixfr" && rng.random_bool(0.2) {
        // single SOA: nothing newer than what the client has
    } else {
        for i in 0..n {
            recs.push(rr(i + 1));
        }
        recs.push(soa(s));
    }
    // ... then possibly one defect
    match rng.random_range(0..12) {
        0 => {
            recs.pop();
        }
        1 => {
            recs.remove(0);
        }
        2 => {
            let l = recs.len();
            recs[l - 1] = soa(s + 1);
        }
        3 => recs.push(rr(900)),
        4 if recs.len() > 2 => {
            let at = rng.random_range(1..recs.len() - 1);
            recs.insert(at, soa(s));
        }
        5 if recs.len() > 2 => {
            let at = rng.random_range(1..recs.len() - 1);
            recs.insert(at, soa(s + 2));
        }
        6 => recs.insert(0, rr(901)),
        _ => {}
    }
    // chunking
    let mut script: Vec<Value> = Vec::new();
    let mut cur: Vec<Value> = Vec::new();
    let p = [0.0, 0.2, 0.5, 1.0][rng.random_range(0..4)];
    for r in recs {
        cur.push(r);
        if rng.random_bool(p) {
            script.push(json!({"rc": 0, "an": std::mem::take(&mut cur)}));
        }
    }
    if !cur.is_empty() {
        script.push(json!({"rc": 0, "an": cur}));
    }
    // an error response somewhere, messages after the end
    match rng.random_range(0..10) {
        0 => {
            let at = rng.random_range(0..=script.len());
            let rc = [2, 5, 9][rng.random_range(0..3)];
            script.insert(at, json!({"rc": rc, "an": []}));
        }
        1 if !script.is_empty() => {
            let at = rng.random_range(0..script.len());
            script[at]["rc"] = json!(2);
        }
        2 => script.push(json!({"rc": 0, "an": [rr(950)]})),
        _ => {}
    }
    json!({"kind": "client", "mode": mode, "have": have, "script": script, "term": if rng.random_bool(0.5) { "end" } else { "err" }})
}

// ---------------------------------------------------------------------------------------

fn main() {
    let args: Vec<String> = std::env::args().collect();
    let mode = args.get(1).map(String::as_str).unwrap_or("");
    let mut trace_path = None;
    let mut n_cases = 100usize;
    let mut seed = vh::util::seed_from_env();
    let mut i = 2;
    while i < args.len() {
        let v = args.get(i + 1).cloned().unwrap_or_default();
        match args[i].as_str() {
            "--trace" => trace_path = Some(v),
            "--n" => n_cases = v.parse().unwrap(),
            "--seed" => seed = v.parse().unwrap(),
            _ => {
                i += 1;
                continue;
            }
        }
        i += 2;
    }
    let mut trace: Box<dyn io::Write> = match &trace_path {
        Some(p) => Box::new(io::BufWriter::new(std::fs::File::create(p).unwrap())),
        None => Box::new(io::sink()),
    };
    let stdout = io::stdout();
    let mut out = io::BufWriter::new(stdout.lock());
    let default_hook = std::panic::take_hook();
    std::panic::set_hook(Box::new(move |info| {
        if !QUIET.load(Ordering::Relaxed) {
            default_hook(info);
        }
    }));
    let rt = tokio::runtime::Builder::new_current_thread().enable_all().build().unwrap();
    let rt_paused = tokio::runtime::Builder::new_current_thread().enable_all().start_paused(true).build().unwrap();

    let run = |c: &Value, id: &str| -> Value {
        match c["kind"].as_str().unwrap_or("") {
            "server" => match rt.block_on(run_server_case(c, id)) {
                Ok(ev) => ev,
                Err(e) => json!({"ev": "harness-error", "case": id, "error": e}),
            },
            "e2e" => match rt_paused.block_on(run_e2e_case(c, id)) {
                Ok(ev) => ev,
                Err(e) => json!({"ev": "harness-error", "case": id, "error": e}),
            },
            "client" if c["via"] == "stack" => rt_paused.block_on(run_client_stack_case(c, id)),
            "client" => run_client_case(c, id),
            "request" => run_request_case(c, id),
            k => json!({"ev": "harness-error", "case": id, "error": format!("kind {k}")}),
        }
    };

    match mode {
        "replay" => {
            for (ln, line) in io::stdin().lock().lines().enumerate() {
                let line = line.unwrap();
                if line.trim().is_empty() {
                    continue;
                }
                let c: Value = serde_json::from_str(&line).expect("case");
                let id = c["id"].as_str().map(String::from).unwrap_or_else(|| format!("g{ln}"));
                let ev = run(&c, &id);
                writeln!(trace, "{ev}").unwrap();
                let kind = c["kind"].as_str().unwrap_or("");
                // client cases: plain comparison with what the TLC case prescribes
                let (ok, observed) = match kind {
                    "client" => {
                        let items: Vec<&str> = ev["items"].as_array().map(|a| a.iter().map(|x| x.as_str().unwrap()).collect()).unwrap_or_default();
                        let verdict = if ev["obs"] != "ok" {
                            "PANIC"
                        } else if items.contains(&"err") {
                            "error"
                        } else if ev["ended"] == true {
                            "complete"
                        } else {
                            "pending"
                        };
                        // over the whole stack what the stream takes from the layer below is not visible
                        let stack = ev["via"] == "stack";
                        let k = if stack { items.iter().filter(|x| **x == "ok").count() as u64 } else { ev["taken"].as_u64().unwrap_or(0) };
                        let exp = &c["exp"];
                        let ok = exp["verdict"] == verdict
                            && (verdict != "complete"
                                || (exp["k"].as_u64() == Some(k) && items.len() as u64 == k && (stack || ev["polls"].as_u64() == Some(k))));
                        (json!(ok), json!({"verdict": verdict, "k": k, "items": items, "polls": ev["polls"]}))
                    }
                    // server / request cases: the verdict is the trace specification's
                    _ => (Value::Null, json!({"obs": ev["obs"], "msgs": ev["msgs"].as_array().map(|a| a.len())})),
                };
                let harness_error = ev["ev"] == "harness-error";
                writeln!(out, "{}", json!({"case": id, "kind": kind, "ok": ok, "expected": c["exp"], "observed": observed,
                    "harnessError": if harness_error { ev["error"].clone() } else { Value::Null },
                    "input": if kind == "client" { c.clone() } else { json!({"req": c["req"], "policy": c["policy"], "store": c["store"], "sign": c["sign"], "shape": c["shape"]}) }})).unwrap();
            }
        }
        "record" => {
            let mut rng = StdRng::seed_from_u64(seed);
            for k in 0..n_cases {
                let c = if k % 3 == 2 {
                    random_client_case(&mut rng)
                } else if k % 12 == 1 {
                    let mode = if rng.random_bool(0.7) { "axfr" } else { "ixfr" };
                    let have = if mode == "ixfr" { ["older", "same", "newer"][rng.random_range(0..3)] } else { "none" };
                    json!({"kind": "e2e", "zone": random_zone(&mut rng), "sign": "none", "store": if rng.random_bool(0.5) { "memory" } else { "sqlite" },
                           "policy": if rng.random_bool(0.8) { "all" } else { "deny" }, "others": false, "mode": mode, "have": have})
                } else {
                    random_server_case(&mut rng)
                };
                let id = format!("r{seed}-{k}");
                let ev = run(&c, &id);
                writeln!(trace, "{ev}").unwrap();
                writeln!(out, "{}", json!({"case": id, "kind": c["kind"], "ev": ev["ev"]})).unwrap();
            }
        }
        _ => {
            eprintln!("usage: drive_xfer replay|record [--trace f] [--n N] [--seed S]");
            std::process::exit(2);
        }
    }
    trace.flush().unwrap();
}
