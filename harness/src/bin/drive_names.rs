//! C04 driver: `hickory_proto::rr::Name` -- equality / hash / order, constructors and
//! combinators, wire and text round trips.
//!
//! `replay-pairs`: name pairs from Gen_Names (PSpec) with CanonCmp / NameEq prescribed by TLC.
//! `replay-ops`:   operation sequences from Gen_Names (OSpec) with the outcome of each step.
//! `record`:       seeded random names (arbitrary octets, up to 127 labels) -> cmp / wire / text /
//!                 op events for the TLA+ monitor Trace_Names.
use std::cmp::Ordering;
use std::collections::hash_map::DefaultHasher;
use std::hash::{Hash, Hasher};
use std::io::{self, BufRead, Write as _};
use std::str::FromStr;

use hickory_proto::rr::{LowerName, Name, RecordType, RrKey};
use hickory_proto::serialize::binary::{BinDecodable, BinDecoder, BinEncodable, BinEncoder, NameEncoding};
use rand::rngs::StdRng;
use rand::{RngExt, SeedableRng};
use serde_json::{json, Value};

fn labels_of(v: &Value) -> Vec<Vec<u8>> {
    v.as_array().map(|a| a.iter().map(|l| l.as_array().map(|b| b.iter().map(|x| x.as_u64().unwrap() as u8).collect()).unwrap_or_default()).collect()).unwrap_or_default()
}

fn name_of(labels: &[Vec<u8>]) -> Result<Name, String> {
    Name::from_labels(labels.iter().map(|l| l.as_slice())).map_err(|e| e.to_string())
}

fn labels_json(n: &Name) -> Value {
    Value::Array(n.iter().map(|l| json!(l.to_vec())).collect())
}

fn ord(o: Ordering) -> i64 {
    match o {
        Ordering::Less => -1,
        Ordering::Equal => 0,
        Ordering::Greater => 1,
    }
}

fn h(n: &Name) -> u64 {
    let mut s = DefaultHasher::new();
    n.hash(&mut s);
    s.finish()
}

/// all observations on a pair of names
fn compare(a: &Name, b: &Name) -> Value {
    let la = LowerName::new(a);
    let lb = LowerName::new(b);
    let ka = RrKey::new(la.clone(), RecordType::A);
    let kb = RrKey::new(lb.clone(), RecordType::A);
    json!({"cmp": ord(a.cmp(b)), "eq": a == b, "hashEq": h(a) == h(b), "lowerCmp": ord(la.cmp(&lb)), "keyCmp": ord(ka.cmp(&kb)),
           "lowerEq": la == lb})
}

fn lab(len: usize) -> Vec<u8> {
    (1..=len).map(|i| 97 + ((len + i) % 26) as u8).collect()
}

fn wire_roundtrip(n: &Name, rng: &mut StdRng) -> (bool, Value, Value) {
    // emit after a prefix (message offset) and after related names, compressed or not
    let mut buf = Vec::new();
    let offset: usize = match rng.random_range(0..6) {
        0 => 0,
        1 => 12,
        2 => rng.random_range(0x3FF0..0x4010),
        3 => rng.random_range(1000..0x3F00), // pointer targets that need more than 10 bits
        4 => [255usize, 256, 1023, 1024, 4095, 4096, 8191, 8192][rng.random_range(0..8)],
        _ => rng.random_range(0..600),
    };
    buf.resize(offset, 0xEE);
    let start;
    let info;
    {
        let mut enc = BinEncoder::with_offset(&mut buf, offset as u32);
        enc.set_max_size(u16::MAX);
        let compress = rng.random_bool(0.7);
        if !compress {
            enc.name_encoding = NameEncoding::Uncompressed;
        }
        // related names first: suffixes of n and a sibling, so that pointers are possible
        let mut pre = 0;
        if rng.random_bool(0.8) {
            let k = n.iter().count();
            if k > 0 {
                let keep = rng.random_range(0..=k);
                let suffix = Name::from_labels(n.iter().skip(k - keep)).unwrap();
                if suffix.emit(&mut enc).is_ok() {
                    pre += 1;
                }
                if let Ok(sib) = suffix.prepend_label(&b"sib"[..]) {
                    if sib.emit(&mut enc).is_ok() {
                        pre += 1;
                    }
                }
            }
        }
        start = enc.len();
        if n.emit(&mut enc).is_err() {
            return (false, Value::Null, json!({"offset": offset, "emit": "err"}));
        }
        info = json!({"offset": offset, "compress": compress, "related": pre, "start": start});
    }
    let mut dec = BinDecoder::new(&buf).clone(start as u16);
    match Name::read(&mut dec) {
        Ok(out) => (true, labels_json(&out), info),
        Err(e) => (false, Value::Null, json!({"offset": offset, "read": e.to_string()})),
    }
}

fn random_name(rng: &mut StdRng, host_style: bool) -> Vec<Vec<u8>> {
    let nlabels = match rng.random_range(0..6) {
        0 => 0,
        1 => 1,
        2 => rng.random_range(2..5),
        3 => rng.random_range(5..12),
        4 => rng.random_range(12..40),
        _ => rng.random_range(40..=127),
    };
    let mut budget: i64 = 254 - nlabels as i64; // keep inside the limit: sum(len) + count + 1 <= 255
    let mut out = Vec::new();
    for i in 0..nlabels {
        let remaining = (nlabels - i) as i64;
        let max = ((budget - (remaining - 1)).min(63)).max(1);
        let len = if rng.random_bool(0.1) { max } else { rng.random_range(1..=max.min(if nlabels > 12 { 2 } else { 20 })) } as usize;
        budget -= len as i64;
        let l: Vec<u8> = if host_style {
            let alphabet = b"abcdefghijklmnopqrstuvwxyzABCDEFGHIJKLMNOPQRSTUVWXYZ0123456789_-";
            let mut v: Vec<u8> = (0..len).map(|_| alphabet[rng.random_range(0..alphabet.len())]).collect();
            // hyphen only interior (RFC 1123 host syntax); "." escaped in text form is allowed
            if v[0] == b'-' {
                v[0] = b'x';
            }
            if *v.last().unwrap() == b'-' {
                *v.last_mut().unwrap() = b'y';
            }
            if len > 2 && rng.random_bool(0.1) {
                v[1] = b'.';
            }
            if i == 0 && rng.random_bool(0.1) {
                v = b"*".to_vec();
            }
            v
        } else {
            (0..len)
                .map(|_| match rng.random_range(0..8) {
                    0 => 0u8,
                    1 => b'.',
                    2 => b'\\',
                    3 => rng.random_range(0x80..=0xFF),
                    4 => rng.random_range(b'A'..=b'Z'),
                    5 => [0x40u8, 0x5B, 0x60, 0x7B][rng.random_range(0..4)],
                    _ => rng.random_range(b'a'..=b'z'),
                })
                .collect()
        };
        out.push(l);
    }
    out
}

fn main() {
    let args: Vec<String> = std::env::args().collect();
    let mode = args.get(1).map(String::as_str).unwrap_or("");
    let mut trace_path = None;
    let mut n_cases = 2000usize;
    let mut seed = vh::util::seed_from_env();
    let mut i = 2;
    while i < args.len() {
        let v = args.get(i + 1).cloned().unwrap_or_default();
        match args[i].as_str() {
            "--trace" => trace_path = Some(v),
            "--n" => n_cases = v.parse().unwrap(),
            "--seed" => seed = v.parse().unwrap(),
            _ => {
                i += 1;
                continue;
            }
        }
        i += 2;
    }
    let mut trace: Box<dyn io::Write> = match &trace_path {
        Some(p) => Box::new(io::BufWriter::new(std::fs::File::create(p).unwrap())),
        None => Box::new(io::sink()),
    };
    let stdout = io::stdout();
    let mut out = io::BufWriter::new(stdout.lock());
    match mode {
        "replay-pairs" => {
            for (ln, line) in io::stdin().lock().lines().enumerate() {
                let line = line.unwrap();
                if line.trim().is_empty() {
                    continue;
                }
                let c: Value = serde_json::from_str(&line).unwrap();
                let (a, b) = (name_of(&labels_of(&c["a"])).unwrap(), name_of(&labels_of(&c["b"])).unwrap());
                let o = compare(&a, &b);
                let exp_cmp = c["cmp"].as_i64().unwrap();
                let exp_eq = c["eq"].as_bool().unwrap();
                let mut bad = Vec::new();
                if o["cmp"] != exp_cmp {
                    bad.push("cmp");
                }
                if o["eq"] != exp_eq || o["lowerEq"] != exp_eq {
                    bad.push("eq");
                }
                if exp_eq && o["hashEq"] != true {
                    bad.push("hash");
                }
                if o["lowerCmp"] != exp_cmp {
                    bad.push("lowername-cmp");
                }
                if o["keyCmp"] != exp_cmp {
                    bad.push("rrkey-cmp");
                }
                writeln!(out, "{}", json!({"case": ln, "ok": bad.is_empty(), "class": format!("order:{}", bad.join(",")), "observed": o,
                    "nontrivial": a.num_labels() > 0 && b.num_labels() > 0 && c["a"] != c["b"], "input": c})).unwrap();
            }
        }
        "replay-ops" => {
            for (ln, line) in io::stdin().lock().lines().enumerate() {
                let line = line.unwrap();
                if line.trim().is_empty() {
                    continue;
                }
                let c: Value = serde_json::from_str(&line).unwrap();
                let mut name = Name::new();
                let mut ok = true;
                let mut bad = Value::Null;
                let mut any_err = false;
                for (k, op) in c["ops"].as_array().unwrap().iter().enumerate() {
                    let len = op["len"].as_u64().unwrap() as usize;
                    let cnt = op["k"].as_u64().unwrap() as usize;
                    let f = op["f"].as_bool().unwrap();
                    let other = || -> Result<Name, String> {
                        let mut o = Name::from_labels((0..cnt).map(|_| lab(len))).map_err(|e| e.to_string())?;
                        o.set_fqdn(f);
                        Ok(o)
                    };
                    let res: Result<Name, String> = match op["op"].as_str().unwrap() {
                        "append_label" => name.clone().append_label(lab(len).as_slice()).map_err(|e| e.to_string()),
                        "prepend_label" => name.prepend_label(lab(len).as_slice()).map_err(|e| e.to_string()),
                        "append_name" => other().and_then(|o| name.clone().append_name(&o).map_err(|e| e.to_string())),
                        "append_domain" => other().and_then(|o| name.clone().append_domain(&o).map_err(|e| e.to_string())),
                        "into_wildcard" => Ok(name.clone().into_wildcard()),
                        "from_labels" => Name::from_labels((0..cnt).map(|_| lab(len))).map_err(|e| e.to_string()),
                        o => panic!("op {o}"),
                    };
                    let obs_ok = res.is_ok();
                    if let Ok(n) = res {
                        name = n;
                    }
                    any_err |= !obs_ok;
                    let lens: Vec<usize> = name.iter().map(|l| l.len()).collect();
                    let exp_lens: Vec<usize> = op["lens"].as_array().unwrap().iter().map(|x| x.as_u64().unwrap() as usize).collect();
                    // fqdn of the root produced by into_wildcard on an empty name is an artefact of the
                    // API (Name::root() is fqdn); only compared when the name has labels
                    let fq_ok = lens.is_empty() || name.is_fqdn() == op["fqdn"].as_bool().unwrap();
                    if ok && (obs_ok != op["ok"].as_bool().unwrap() || lens != exp_lens || !fq_ok) {
                        ok = false;
                        bad = json!({"step": k, "op": op, "observed": {"ok": obs_ok, "lens": lens, "fqdn": name.is_fqdn()}});
                    }
                    if name.len() > 255 || lens.iter().any(|l| *l > 63) {
                        ok = false;
                        bad = json!({"step": k, "op": op, "oversize": lens});
                    }
                }
                writeln!(out, "{}", json!({"case": ln, "ok": ok, "class": "name-op-outcome", "bad": bad, "nontrivial": any_err,
                    "input": if ok { Value::Null } else { c.clone() }, "digest_src": c["ops"]})).unwrap();
            }
        }
        "record" => {
            let mut rng = StdRng::seed_from_u64(seed);
            for case in 0..n_cases {
                let id = format!("s{seed}-{case}");
                // cmp: two related random names
                let a = random_name(&mut rng, false);
                let mut b = if rng.random_bool(0.5) { a.clone() } else { random_name(&mut rng, false) };
                if rng.random_bool(0.6) && !b.is_empty() {
                    // perturb: case flip / byte change / drop or add a label
                    let i = rng.random_range(0..b.len());
                    let j = rng.random_range(0..b[i].len());
                    match rng.random_range(0..4) {
                        0 => b[i][j] ^= 0x20,
                        1 => b[i][j] = b[i][j].wrapping_add(1),
                        2 => {
                            b.remove(i);
                        }
                        _ => {
                            if b[i].len() > 1 {
                                b[i].pop();
                            }
                        }
                    }
                }
                if let (Ok(na), Ok(nb)) = (name_of(&a), name_of(&b)) {
                    let mut o = compare(&na, &nb);
                    o["ev"] = json!("cmp");
                    o["case"] = json!(id);
                    o["a"] = json!(a);
                    o["b"] = json!(b);
                    writeln!(trace, "{o}").unwrap();
                }
                // wire
                if let Ok(n) = name_of(&a) {
                    let (ok, outl, info) = wire_roundtrip(&n, &mut rng);
                    writeln!(trace, "{}", json!({"ev":"wire","case":id,"in":a,"out": if ok { outl } else { json!([]) },"ok":ok,"info":info})).unwrap();
                }
                // text: host-style names
                let mut hname = random_name(&mut rng, true);
                let variant = rng.random_range(0..3);
                if variant == 2 {
                    // Name::parse is the UTF-8/IDNA entry point (UTS 46 with the STD3 deny list): it
                    // refuses '_' except as the first octet of a label, by design; keep underscores
                    // leading for this variant
                    for l in hname.iter_mut() {
                        for b in l.iter_mut().skip(1) {
                            if *b == b'_' {
                                *b = b'u';
                            }
                        }
                        // UTS 46 also refuses labels that look like punycode ("xn--") but are not
                        if l.len() >= 4 && l[2] == b'-' && l[3] == b'-' {
                            l[2] = b'h';
                        }
                    }
                }
                if let Ok(n) = name_of(&hname) {
                    let re: Result<Name, String> = match variant {
                        0 => Name::from_ascii(n.to_ascii()).map_err(|e| e.to_string()),
                        1 => Name::from_str(&n.to_string()).map_err(|e| e.to_string()),
                        _ => {
                            // relative form completed with an origin
                            let k = hname.len(); // (num_labels() does not count a leading "*")
                            let cut = rng.random_range(0..=k);
                            let mut origin = Name::from_labels(hname[k - cut..].iter().map(|l| l.as_slice())).unwrap();
                            origin.set_fqdn(true);
                            let mut rel = Name::from_labels(hname[..k - cut].iter().map(|l| l.as_slice())).unwrap();
                            rel.set_fqdn(false);
                            Name::parse(&rel.to_ascii(), Some(&origin)).map_err(|e| e.to_string())
                        }
                    };
                    match re {
                        Ok(r) => writeln!(trace, "{}", json!({"ev":"text","case":id,"in":hname,"out":labels_json(&r),"ok":true,"variant":variant,"text":n.to_ascii()})).unwrap(),
                        Err(e) => writeln!(trace, "{}", json!({"ev":"text","case":id,"in":hname,"out":[],"ok":false,"variant":variant,"text":n.to_ascii(),"error":e})).unwrap(),
                    }
                }
                // op near the limits: build a name close to 255 and try to extend it
                let base = random_name(&mut rng, false);
                if let Ok(n) = name_of(&base) {
                    let room = 255 - (n.len() + if n.is_root() { 0 } else { 1 }) as i64; // wire length = len()+1 for non-root
                    let extra_len = (room + rng.random_range(-3..=2)).clamp(1, 64) as usize;
                    let extra: Vec<u8> = vec![b'q'; extra_len];
                    let (res, want): (Result<Name, String>, Vec<Vec<u8>>) = if rng.random_bool(0.5) {
                        let mut w = base.clone();
                        w.push(extra.clone());
                        (n.clone().append_label(extra.as_slice()).map_err(|e| e.to_string()), w)
                    } else {
                        let mut w = vec![extra.clone()];
                        w.extend(base.clone());
                        (n.prepend_label(extra.as_slice()).map_err(|e| e.to_string()), w)
                    };
                    let (ok, post) = match &res {
                        Ok(r) => (true, labels_json(r)),
                        Err(_) => (false, labels_json(&n)),
                    };
                    writeln!(trace, "{}", json!({"ev":"op","case":id,"pre":base,"want":want,"ok":ok,"post":post})).unwrap();
                }
            }
            writeln!(out, "{}", json!({"cases": n_cases})).unwrap();
        }
        _ => {
            eprintln!("usage: drive_names replay-pairs|replay-ops|record");
            std::process::exit(2);
        }
    }
    trace.flush().unwrap();
}
