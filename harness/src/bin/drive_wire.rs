//! C01 / C02 driver: wire decoding and encoding of names, records and messages.
//!
//! `replay-names`: (buffer, start offset) cases from Gen_WireName with the meaning the TLA+
//!    specification gives (ok / labels / next offset); `Name::read` must agree.
//! `record-decode` (C01): corpus of valid messages of every RDATA type, mutated (bit flips, length
//!    edits, truncation, splices) and random bytes, plus adversarial 64 KiB packets, through every
//!    network entry point (Message, MessageRequest, Record, RData, Name) under catch_unwind and a
//!    watchdog; one event per call with outcome / consumed / name limits / elapsed time.
//! `grammar` (C01 + C02): records unfolded from the TLA+ record grammar (GrammarOps / Gen_Grammar); the
//!    driver only serialises wire primitives (it has no table of record types), embeds the record in a
//!    message as the case's context says, and reports what every entry point did with it.
//! `record-roundtrip` (C02): random structurally valid messages -> encode -> independent wire
//!    walker (name layouts) -> decode -> compare; accepted byte strings re-encoded and compared.
use std::io::{self, BufRead, Write as _};
use std::net::SocketAddr;
use std::panic::{catch_unwind, AssertUnwindSafe};
use std::str::FromStr;
use std::sync::mpsc;
use std::time::{Duration, Instant};

use hickory_net::xfer::Protocol;
use hickory_proto::dnssec::rdata::{DNSSECRData, DNSKEY, DS, NSEC, NSEC3, NSEC3PARAM, RRSIG};
use hickory_proto::dnssec::{Algorithm, DigestType, Nsec3HashAlgorithm, PublicKeyBuf};
use hickory_proto::op::{Edns, Message, MessageType, OpCode, Query, ResponseCode};
use hickory_proto::rr::rdata::opt::{ClientSubnet, EdnsOption};
use hickory_proto::rr::rdata::tsig::{TsigAlgorithm, TSIG};
use hickory_proto::rr::rdata::{NULL, SOA};
use hickory_proto::rr::{Name, RData, Record, RecordType, SerialNumber};
use hickory_proto::serialize::binary::{BinDecodable, BinDecoder};
use hickory_server::server::Request;
use rand::rngs::StdRng;
use rand::{RngExt, SeedableRng};
use serde_json::{json, Value};

fn labels_json(n: &Name) -> Value {
    Value::Array(n.iter().map(|l| json!(l.to_vec())).collect())
}

// ------------------------------------------------------------------------------------------
// corpus

fn nm(s: &str) -> Name {
    Name::from_str(s).unwrap()
}

/// records of as many RDATA types as the library can build, from presentation format where a
/// parser exists and programmatically otherwise
fn corpus_records() -> (Vec<Record>, Vec<String>) {
    let texts: &[(RecordType, &str)] = &[
        (RecordType::A, "192.0.2.1"),
        (RecordType::AAAA, "2001:db8::1"),
        (RecordType::ANAME, "target.example.com."),
        (RecordType::CAA, "0 issue \"ca.example.net\""),
        (RecordType::CERT, "1 12345 8 AQID"),
        (RecordType::CNAME, "alias.Example.com."),
        (RecordType::CSYNC, "66 3 A NS AAAA"),
        (RecordType::HINFO, "\"CPU\" \"OS\""),
        (RecordType::HTTPS, "1 svc.example.com. alpn=h2,h3 port=8443 ipv4hint=192.0.2.1"),
        (RecordType::MX, "10 mail.example.com."),
        (RecordType::NAPTR, "100 10 \"S\" \"SIP+D2U\" \"\" _sip._udp.example.com."),
        (RecordType::NS, "ns1.example.com."),
        (RecordType::OPENPGPKEY, "AQIDBAUGBwg="),
        (RecordType::PTR, "host.example.com."),
        (RecordType::SMIMEA, "3 1 1 0123456789abcdef0123456789abcdef0123456789abcdef0123456789abcdef"),
        (RecordType::SOA, "ns1.example.com. admin.example.com. 2024010101 3600 600 86400 300"),
        (RecordType::SRV, "1 2 443 service.example.com."),
        (RecordType::SSHFP, "1 1 0123456789abcdef0123456789abcdef01234567"),
        (RecordType::SVCB, "2 . mandatory=alpn alpn=h2 no-default-alpn"),
        (RecordType::TLSA, "3 1 1 0123456789abcdef0123456789abcdef0123456789abcdef0123456789abcdef"),
        (RecordType::TXT, "\"hello world\" \"second string\""),
        (RecordType::DNSKEY, "257 3 13 mdsswUyr3DPW132mOi8V9xESWE8jTo0dxCjjnopKl+GqJxpVXckHAeF+KkxLbxILfDLUT0rAK9iUzy1L53eKGQ=="),
        (RecordType::DS, "12345 13 2 0123456789abcdef0123456789abcdef0123456789abcdef0123456789abcdef"),
        (RecordType::NSEC3PARAM, "1 0 5 ABCD"),
    ];
    let mut out = Vec::new();
    let mut types = Vec::new();
    let owner = nm("www.Example.com.");
    for (t, s) in texts {
        if let Ok(rd) = RData::try_from_str(*t, s) {
            out.push(Record::from_rdata(owner.clone(), 300, rd));
            types.push(t.to_string());
        }
    }
    // programmatic ones
    let key = PublicKeyBuf::new(vec![7u8; 32], Algorithm::ED25519);
    let mut extra: Vec<(String, RData)> = Vec::new();
    extra.push(("NULL".into(), RData::NULL(NULL::with(vec![1, 2, 3, 4, 5]))));
    extra.push(("UNKNOWN".into(), RData::Unknown { code: RecordType::Unknown(65280), rdata: NULL::with(vec![9; 7]) }));
    extra.push(("DNSKEY2".into(), RData::DNSSEC(DNSSECRData::DNSKEY(DNSKEY::new(true, true, false, key.clone())))));
    extra.push(("DS2".into(), RData::DNSSEC(DNSSECRData::DS(DS::new(4711, Algorithm::ED25519, DigestType::SHA256, vec![3; 32])))));
    extra.push((
        "NSEC".into(),
        RData::DNSSEC(DNSSECRData::NSEC(NSEC::new(nm("Next.example.com."), [RecordType::A, RecordType::NS, RecordType::RRSIG, RecordType::NSEC, RecordType::CAA]))),
    ));
    extra.push((
        "NSEC3".into(),
        RData::DNSSEC(DNSSECRData::NSEC3(NSEC3::new(Nsec3HashAlgorithm::SHA1, true, 5, vec![0xAB, 0xCD], vec![5; 20], [RecordType::A, RecordType::RRSIG]))),
    ));
    extra.push(("NSEC3PARAM2".into(), RData::DNSSEC(DNSSECRData::NSEC3PARAM(NSEC3PARAM::new(Nsec3HashAlgorithm::SHA1, false, 3, vec![1, 2])))));
    let sig_input = hickory_proto::dnssec::rdata::sig::SigInput {
        type_covered: RecordType::A,
        algorithm: Algorithm::ED25519,
        num_labels: 3,
        original_ttl: 300,
        sig_expiration: SerialNumber::new(1_900_000_000),
        sig_inception: SerialNumber::new(1_700_000_000),
        key_tag: 4711,
        signer_name: nm("Example.com."),
    };
    extra.push(("RRSIG".into(), RData::DNSSEC(DNSSECRData::RRSIG(RRSIG::from_sig(sig_input, vec![0x55; 64])))));
    for (n, rd) in extra {
        out.push(Record::from_rdata(owner.clone(), 300, rd));
        types.push(n);
    }
    (out, types)
}

fn corpus_messages(rng: &mut StdRng) -> (Vec<Vec<u8>>, Vec<String>) {
    let (recs, types) = corpus_records();
    let mut msgs = Vec::new();
    // one message per record type (+ question, + related names so that compression occurs)
    for r in &recs {
        let mut m = Message::new(rng.random(), MessageType::Response, OpCode::Query);
        m.add_query(Query::new(r.name.clone(), r.record_type()));
        m.add_answer(r.clone());
        m.add_authority(Record::from_rdata(nm("example.com."), 3600, RData::SOA(SOA::new(nm("ns1.example.com."), nm("admin.example.com."), 1, 2, 3, 4, 5))));
        if let Ok(b) = m.to_vec() {
            msgs.push(b);
        }
    }
    // everything together, EDNS with options, TSIG, extended rcode, update opcode
    let mut m = Message::new(7, MessageType::Response, OpCode::Query);
    m.add_query(Query::new(nm("www.example.com."), RecordType::ANY));
    for (i, r) in recs.iter().enumerate() {
        match i % 3 {
            0 => m.add_answer(r.clone()),
            1 => m.add_authority(r.clone()),
            _ => m.add_additional(r.clone()),
        };
    }
    let mut e = Edns::new();
    e.set_max_payload(1232).set_dnssec_ok(true);
    e.options_mut().insert(EdnsOption::Subnet(ClientSubnet::new("192.0.2.0".parse().unwrap(), 24, 0)));
    e.options_mut().insert(EdnsOption::Unknown(65001, vec![1, 2, 3]));
    m.edns = Some(e);
    m.metadata.response_code = ResponseCode::BADVERS;
    m.signature = Some(Box::new(Record::from_rdata(nm("key.example."), 0, TSIG::new(TsigAlgorithm::HmacSha256, 1_700_000_000, 300, vec![0xAA; 32], 7, None, vec![]))));
    if let Ok(b) = m.to_vec() {
        msgs.push(b);
    }
    let mut u = Message::new(9, MessageType::Query, OpCode::Update);
    u.add_query(Query::new(nm("example.com."), RecordType::SOA));
    u.add_answer(Record::update0(nm("www.example.com."), 0, RecordType::A).into_record_of_rdata());
    u.add_authority(recs[0].clone());
    if let Ok(b) = u.to_vec() {
        msgs.push(b);
    }
    (msgs, types)
}

fn mutate(rng: &mut StdRng, corpus: &[Vec<u8>]) -> Vec<u8> {
    let mut b = corpus[rng.random_range(0..corpus.len())].clone();
    for _ in 0..rng.random_range(1..4) {
        if b.is_empty() {
            break;
        }
        match rng.random_range(0..9) {
            0 => {
                let i = rng.random_range(0..b.len());
                b[i] ^= 1 << rng.random_range(0..8);
            }
            1 => {
                let i = rng.random_range(0..b.len());
                b[i] = [0u8, 0x3F, 0x40, 0x80, 0xC0, 0xC1, 0xFF, 12][rng.random_range(0..8)];
            }
            2 => b.truncate(rng.random_range(0..=b.len())),
            3 => {
                let o = &corpus[rng.random_range(0..corpus.len())];
                let cut = rng.random_range(0..=b.len());
                let from = rng.random_range(0..=o.len());
                b.truncate(cut);
                b.extend_from_slice(&o[from..]);
            }
            4 => {
                // header count edit
                if b.len() >= 12 {
                    let i = 4 + 2 * rng.random_range(0..4);
                    let v: u16 = [0u16, 1, 2, 3, 255, 65535][rng.random_range(0..6)];
                    b[i..i + 2].copy_from_slice(&v.to_be_bytes());
                }
            }
            5 => {
                // 16-bit field edit somewhere (often an RDLENGTH or a pointer)
                if b.len() >= 14 {
                    let i = rng.random_range(12..b.len() - 1);
                    let v: u16 = [0u16, 1, 0xC00C, 0xC000, 0xFFFF, b.len() as u16][rng.random_range(0..6)];
                    b[i..i + 2].copy_from_slice(&v.to_be_bytes());
                }
            }
            6 => {
                let i = rng.random_range(0..b.len());
                b.remove(i);
            }
            7 => {
                let i = rng.random_range(0..=b.len());
                b.insert(i, rng.random());
            }
            _ => {
                let i = rng.random_range(0..b.len());
                let n = rng.random_range(1..40usize).min(b.len() - i);
                for x in &mut b[i..i + n] {
                    *x = rng.random();
                }
            }
        }
    }
    b
}

/// adversarial big packets: long pointer chains, many records pointing at them
fn adversarial(kind: usize) -> Vec<u8> {
    let mut b = vec![0u8; 12];
    match kind % 4 {
        0 => {
            // backward pointer chain of ~30000 hops, then a question whose name points at its end
            b[5] = 1; // qdcount
            b.extend_from_slice(&[1, b'a', 0]); // name at 12
            let mut last = 12u16;
            while b.len() + 8 < 16000 {
                let at = b.len() as u16;
                b.extend_from_slice(&(0xC000 | last).to_be_bytes());
                last = at;
            }
            // pad to > 16383 is pointless for pointers; now many questions pointing at `last`
            let q = 4000u16;
            b[4..6].copy_from_slice(&q.to_be_bytes());
            for _ in 0..q {
                b.extend_from_slice(&(0xC000 | last).to_be_bytes());
                b.extend_from_slice(&[0, 1, 0, 1]);
            }
        }
        1 => {
            // self / forward pointer loops
            b[5] = 1;
            b.extend_from_slice(&[0xC0, 12, 0, 1, 0, 1]);
            b.extend_from_slice(&[0xC0, 20, 0xC0, 18]);
        }
        2 => {
            // 255/256-octet names out of 63-octet labels, header claiming 65535 records
            b[4..12].copy_from_slice(&[0, 1, 0xFF, 0xFF, 0xFF, 0xFF, 0xFF, 0xFF]);
            for _ in 0..4 {
                b.push(63);
                b.extend_from_slice(&[b'x'; 63]);
            }
            b.extend_from_slice(&[0, 0, 1, 0, 1]);
            while b.len() < 65000 {
                b.extend_from_slice(&[0xC0, 12, 0, 16, 0, 1, 0, 0, 0, 1, 0, 3, 2, b'h', b'i']);
            }
        }
        _ => {
            // maximal packet of label-length bytes
            b[4..6].copy_from_slice(&1u16.to_be_bytes());
            while b.len() < 65535 {
                b.push(1);
                b.push(b'a');
            }
            b.truncate(65535);
        }
    }
    b
}

// ------------------------------------------------------------------------------------------
// observation of one decode call

fn name_limits(names: &[&Name]) -> (usize, usize) {
    let mut max_label = 0;
    let mut max_wire = 0;
    for n in names {
        for l in n.iter() {
            max_label = max_label.max(l.len());
        }
        let wire = n.iter().map(|l| l.len() + 1).sum::<usize>() + 1;
        max_wire = max_wire.max(wire);
    }
    (max_label, max_wire)
}

fn message_names(m: &Message) -> Vec<&Name> {
    let mut v: Vec<&Name> = Vec::new();
    for q in &m.queries {
        v.push(&q.name);
    }
    for r in m.answers.iter().chain(m.authorities.iter()).chain(m.additionals.iter()) {
        v.push(&r.name);
        match &r.data {
            RData::CNAME(n) => v.push(&n.0),
            RData::NS(n) => v.push(&n.0),
            RData::PTR(n) => v.push(&n.0),
            RData::ANAME(n) => v.push(&n.0),
            RData::MX(mx) => v.push(&mx.exchange),
            RData::SOA(s) => {
                v.push(&s.mname);
                v.push(&s.rname);
            }
            RData::SRV(s) => v.push(&s.target),
            _ => {}
        }
    }
    v
}

/// run `f` with panics caught; returns (outcome, consumed, max_label, max_name_wire)
fn guarded<F: FnOnce() -> Result<(usize, usize, usize), String>>(f: F) -> (String, usize, usize, usize, String) {
    match catch_unwind(AssertUnwindSafe(f)) {
        Ok(Ok((c, l, w))) => ("ok".into(), c, l, w, String::new()),
        Ok(Err(e)) => ("err".into(), 0, 0, 0, e),
        Err(p) => {
            let msg = p.downcast_ref::<&str>().map(|s| s.to_string()).or_else(|| p.downcast_ref::<String>().cloned()).unwrap_or_default();
            ("PANIC".into(), 0, 0, 0, msg)
        }
    }
}

fn decode_all(bytes: &[u8], rng: &mut StdRng) -> Vec<(String, (String, usize, usize, usize, String), usize)> {
    let mut out = Vec::new();
    let len = bytes.len();
    out.push((
        "message".to_string(),
        guarded(|| {
            let mut d = BinDecoder::new(bytes);
            let m = Message::read(&mut d).map_err(|e| e.to_string())?;
            let (l, w) = name_limits(&message_names(&m));
            Ok((d.index(), l, w))
        }),
        len,
    ));
    out.push((
        "request".to_string(),
        guarded(|| {
            let src: SocketAddr = "192.0.2.1:53".parse().unwrap();
            let r = Request::from_bytes(bytes.to_vec(), src, Protocol::Udp).map_err(|e| e.to_string())?;
            let mut names: Vec<Name> = Vec::new();
            names.push(Name::from(r.queries.name()));
            for rec in r.answers.iter().chain(r.authorities.iter()).chain(r.additionals.iter()) {
                names.push(rec.name.clone());
            }
            let refs: Vec<&Name> = names.iter().collect();
            let (l, w) = name_limits(&refs);
            Ok((len, l, w))
        }),
        len,
    ));
    // a record / name / rdata at some offset
    let off = if len > 12 && rng.random_bool(0.8) { 12 } else { rng.random_range(0..=len) };
    out.push((
        "name".to_string(),
        guarded(|| {
            let mut d = BinDecoder::new(bytes).clone(off as u16);
            let n = Name::read(&mut d).map_err(|e| e.to_string())?;
            let (l, w) = name_limits(&[&n]);
            Ok((d.index(), l, w))
        }),
        len,
    ));
    out.push((
        "record".to_string(),
        guarded(|| {
            let mut d = BinDecoder::new(bytes).clone(off as u16);
            let r = Record::read(&mut d).map_err(|e| e.to_string())?;
            let (l, w) = name_limits(&[&r.name]);
            Ok((d.index(), l, w))
        }),
        len,
    ));
    // RDATA of a chosen type, clamped to a chosen length
    let types = [1u16, 2, 5, 6, 12, 13, 15, 16, 28, 33, 35, 37, 41, 43, 44, 46, 47, 48, 50, 51, 52, 53, 59, 60, 61, 62, 64, 65, 250, 257, 24, 25, 99, 65280];
    let t = RecordType::from(types[rng.random_range(0..types.len())]);
    let rdlen = if rng.random_bool(0.5) { len.saturating_sub(off) } else { rng.random_range(0..=len.saturating_sub(off)) };
    out.push((
        format!("rdata:{t}"),
        guarded(|| {
            let mut d = BinDecoder::new(bytes).clone(off as u16);
            let sub = d.split_off(rdlen).map_err(|e| e.to_string())?;
            let _ = RData::read(sub, t).map_err(|e| e.to_string())?;
            Ok((d.index(), 0, 0))
        }),
        len,
    ));
    out
}


// ------------------------------------------------------------------------------------------
// C02: round trips

/// independent wire walker (no hickory code): splits a message into its parts
#[derive(Default, Debug)]
struct Walk {
    counts: [usize; 4],
    /// offsets of every owner / question name, in wire order
    name_ats: Vec<usize>,
    /// per record after the questions: (type, rdata start, rdata end, ttl)
    recs: Vec<(u16, usize, usize, u32)>,
    end: usize,
}

fn skip_name(b: &[u8], mut i: usize) -> Option<usize> {
    loop {
        let l = *b.get(i)? as usize;
        if l == 0 {
            return Some(i + 1);
        }
        if l & 0xC0 == 0xC0 {
            b.get(i + 1)?;
            return Some(i + 2);
        }
        if l & 0xC0 != 0 {
            return None;
        }
        i += 1 + l;
    }
}

fn walk(b: &[u8]) -> Option<Walk> {
    if b.len() < 12 {
        return None;
    }
    let c = |i: usize| u16::from_be_bytes([b[i], b[i + 1]]) as usize;
    let mut w = Walk { counts: [c(4), c(6), c(8), c(10)], ..Default::default() };
    let mut i = 12;
    for _ in 0..w.counts[0] {
        w.name_ats.push(i);
        i = skip_name(b, i)? + 4;
        if i > b.len() {
            return None;
        }
    }
    for _ in 0..(w.counts[1] + w.counts[2] + w.counts[3]) {
        w.name_ats.push(i);
        let n = skip_name(b, i)?;
        if n + 10 > b.len() {
            return None;
        }
        let t = u16::from_be_bytes([b[n], b[n + 1]]);
        let ttl = u32::from_be_bytes([b[n + 4], b[n + 5], b[n + 6], b[n + 7]]);
        let rdlen = u16::from_be_bytes([b[n + 8], b[n + 9]]) as usize;
        let end = n + 10 + rdlen;
        if end > b.len() {
            return None;
        }
        w.recs.push((t, n + 10, end, ttl));
        i = end;
    }
    w.end = i;
    Some(w)
}

/// RR types whose RDATA holds no domain name at all: preserved byte for byte by any re-encoding
fn nameless(t: u16) -> bool {
    matches!(t, 1 | 10 | 13 | 16 | 28 | 37 | 43 | 44 | 48 | 50 | 51 | 52 | 53 | 59 | 60 | 61 | 62 | 99 | 257 | 65280..=65534)
}
/// RR types with names that must not be compressed (RFC 3597 section 4): preserved byte for byte
/// as long as the received RDATA did not itself use (invalid) compression
fn uncompressible_names(t: u16) -> bool {
    matches!(t, 33 | 35 | 46 | 47 | 64 | 65)
}

/// the fuzz target's notion of equality (Update0 vs empty OPT is an equality artefact)
fn record_equal(a: &Record, b: &Record) -> bool {
    if a.record_type() != b.record_type() || a.name != b.name || a.ttl != b.ttl || a.dns_class != b.dns_class {
        return false;
    }
    if a.data == b.data {
        return true;
    }
    match (&a.data, &b.data) {
        (RData::Update0(_), RData::OPT(o)) | (RData::OPT(o), RData::Update0(_)) => o.as_ref().is_empty(),
        _ => false,
    }
}
fn case_equal(a: &Name, b: &Name) -> bool {
    a.iter().eq(b.iter())
}
fn messages_equal(a: &Message, b: &Message) -> Vec<&'static str> {
    let mut d = Vec::new();
    if a.metadata != b.metadata {
        d.push("header");
    }
    if a.queries != b.queries || !a.queries.iter().zip(b.queries.iter()).all(|(x, y)| case_equal(&x.name, &y.name)) {
        d.push("question");
    }
    for (n, x, y) in [("answer", &a.answers, &b.answers), ("authority", &a.authorities, &b.authorities), ("additional", &a.additionals, &b.additionals)] {
        if x.len() != y.len() || !x.iter().zip(y.iter()).all(|(r, s)| record_equal(r, s) && case_equal(&r.name, &s.name)) {
            d.push(n);
        }
    }
    if a.edns != b.edns {
        d.push("edns");
    }
    if a.signature != b.signature {
        d.push("tsig");
    }
    d
}

fn random_name(rng: &mut StdRng) -> Name {
    let zones = ["example.com.", "Example.COM.", "sub.example.com.", "a.very.deep.name.under.example.org.", "x.", "."];
    let hosts = ["www", "WWW", "mail", "_sip._tcp", "a.b.c.d", "ns1", "*", "xn--bcher-kva", "label-with-63-octets-xxxxxxxxxxxxxxxxxxxxxxxxxxxxxxxxxxxxxxxxxx"];
    let z = zones[rng.random_range(0..zones.len())];
    if rng.random_bool(0.15) {
        return nm(z);
    }
    let h = hosts[rng.random_range(0..hosts.len())];
    Name::from_ascii(if z == "." { format!("{h}.") } else { format!("{h}.{z}") }).unwrap()
}

fn random_message(rng: &mut StdRng, recs: &[Record], big: bool) -> Message {
    let mut m = Message::new(rng.random(), if rng.random_bool(0.7) { MessageType::Response } else { MessageType::Query },
        [OpCode::Query, OpCode::Status, OpCode::Notify, OpCode::Update][rng.random_range(0..4)]);
    m.metadata.authoritative = rng.random_bool(0.5);
    m.metadata.truncation = rng.random_bool(0.1);
    m.metadata.recursion_desired = rng.random_bool(0.5);
    m.metadata.recursion_available = rng.random_bool(0.5);
    m.metadata.authentic_data = rng.random_bool(0.3);
    m.metadata.checking_disabled = rng.random_bool(0.3);
    let with_edns = rng.random_bool(0.5);
    let rcodes = if with_edns { vec![0u16, 1, 2, 3, 4, 5, 9, 10, 16, 17, 18, 22, 23] } else { vec![0u16, 1, 2, 3, 4, 5, 9, 10] };
    m.metadata.response_code = ResponseCode::from(0, 0); // placeholder
    let rc = rcodes[rng.random_range(0..rcodes.len())];
    m.metadata.response_code = ResponseCode::from((rc >> 4) as u8, (rc & 0xF) as u8);
    if rng.random_bool(0.9) {
        m.add_query(Query::new(random_name(rng), [RecordType::A, RecordType::AAAA, RecordType::MX, RecordType::ANY, RecordType::SOA][rng.random_range(0..5)]));
    }
    if big && rng.random_bool(0.5) {
        // few compression candidates before offset 0x3FFF, fresh names (each written twice) behind it:
        // a candidate stored at an offset that does not fit 14 bits would corrupt the second copy
        let owner = random_name(rng);
        for k in 0..70u32 {
            m.add_answer(Record::from_rdata(owner.clone(), k, RData::NULL(NULL::with(vec![k as u8; 240]))));
        }
        for k in 0..10 {
            let late = Name::from_ascii(format!("late{k}.Beyond-16K.example.net.")).unwrap();
            for j in 0..2u32 {
                m.add_authority(Record::from_rdata(late.clone(), j, RData::NULL(NULL::with(vec![j as u8; 3]))));
            }
        }
    }
    let n = if big { rng.random_range(150..400) } else { rng.random_range(0..14) };
    for _ in 0..n {
        let mut r = recs[rng.random_range(0..recs.len())].clone();
        r.name = random_name(rng);
        r.ttl = rng.random_range(0..100_000);
        match rng.random_range(0..3) {
            0 => m.add_answer(r),
            1 => m.add_authority(r),
            _ => m.add_additional(r),
        };
    }
    if with_edns {
        let mut e = Edns::new();
        e.set_max_payload([512u16, 1232, 4096, 65535][rng.random_range(0..4)]);
        e.set_dnssec_ok(rng.random_bool(0.5));
        // the header's response code is what the message says; an Edns taken over from another
        // (decoded) message may still carry that message's upper RCODE bits
        e.set_rcode_high(if rng.random_bool(0.25) { rng.random() } else { (rc >> 4) as u8 });
        if rng.random_bool(0.5) {
            e.options_mut().insert(EdnsOption::Subnet(ClientSubnet::new("192.0.2.0".parse().unwrap(), 24, 0)));
        }
        if rng.random_bool(0.3) {
            e.options_mut().insert(EdnsOption::Unknown(65001, vec![1, 2, 3]));
        }
        m.edns = Some(e);
    }
    if rng.random_bool(0.25) {
        m.signature = Some(Box::new(Record::from_rdata(nm("key.example."), 0, TSIG::new(TsigAlgorithm::HmacSha256, 1_700_000_000 + rng.random_range(0..1000u64), 300, vec![0xAA; 32], m.metadata.id, None, vec![]))));
    }
    m
}

fn bytes_json(b: &[u8]) -> Value {
    json!(b)
}

fn record_roundtrip(seed: u64, n_cases: usize, trace: &mut dyn io::Write) {
    let mut rng = StdRng::seed_from_u64(seed ^ 0xC02);
    let (recs, _types) = corpus_records();
    let (corpus, _t) = corpus_messages(&mut rng);
    for case in 0..n_cases {
        let id = format!("s{seed}-{case}");
        // A. value -> bytes -> value
        let big = case % 97 == 96;
        let m = random_message(&mut rng, &recs, big);
        let enc = catch_unwind(AssertUnwindSafe(|| m.to_vec()));
        match enc {
            Ok(Ok(bytes)) => {
                let dec = catch_unwind(AssertUnwindSafe(|| Message::from_vec(&bytes)));
                let (decoded, diffs) = match &dec {
                    Ok(Ok(m2)) => {
                        // what the message says: the OPT's upper RCODE bits are those of its response code
                        let mut exp = m.clone();
                        let high = exp.metadata.response_code.high();
                        if let Some(e) = exp.edns.as_mut() {
                            e.set_rcode_high(high);
                        }
                        (true, messages_equal(&exp, m2))
                    }
                    _ => (false, vec!["undecodable"]),
                };
                writeln!(trace, "{}", json!({"ev":"rt1","case":id,"encoded":true,"decoded":decoded,"equal":diffs.is_empty(),"diffs":diffs,"len":bytes.len(),
                    "records": m.answers.len() + m.authorities.len() + m.additionals.len()})).unwrap();
                // layout: every question / owner name of the encoding must MEAN the original name
                if let Some(w) = walk(&bytes) {
                    let mut originals: Vec<&Name> = m.queries.iter().map(|q| &q.name).collect();
                    for r in m.answers.iter().chain(m.authorities.iter()).chain(m.additionals.iter()) {
                        originals.push(&r.name);
                    }
                    // OPT / TSIG owners are written behind the additionals
                    let n = originals.len().min(w.name_ats.len());
                    // sample the names of big messages (the whole buffer travels with the event)
                    let step = if bytes.len() > 4000 { 17 } else { 1 };
                    let mut names: Vec<Value> = (0..n).step_by(step).map(|k| json!({"at": w.name_ats[k], "labels": labels_json(originals[k])})).collect();
                    if step > 1 {
                        // and the names written behind offset 0x3FFF
                        for k in (0..n).filter(|k| w.name_ats[*k] >= 0x3FFF).take(40) {
                            names.push(json!({"at": w.name_ats[k], "labels": labels_json(originals[k])}));
                        }
                    }
                    if bytes.len() <= 4000 || case % 485 == 96 {
                        writeln!(trace, "{}", json!({"ev":"layout","case":id,"buf":bytes_json(&bytes),"names":names})).unwrap();
                    }
                    let types: Vec<u16> = w.recs.iter().map(|r| r.0).collect();
                    let opt_ttl_high = w.recs.iter().find(|r| r.0 == 41).map(|r| (r.3 >> 24) as u64);
                    writeln!(trace, "{}", json!({"ev":"place","case":id,"counts":w.counts,"types":types,"rcodeLow":(bytes[3] & 0x0F),
                        "rcode": u16::from(m.metadata.response_code),"optTtlHigh": opt_ttl_high.map(|x| x as i64).unwrap_or(-1),
                        "trailing": bytes.len() - w.end,
                        "inCounts":[m.queries.len(), m.answers.len(), m.authorities.len(), m.additionals.len() + m.edns.is_some() as usize + m.signature.is_some() as usize]})).unwrap();
                }
            }
            Ok(Err(e)) => {
                writeln!(trace, "{}", json!({"ev":"rt1","case":id,"encoded":false,"decoded":false,"equal":false,"diffs":["encode-error"],"error":e.to_string(),"len":0,"records":0})).unwrap();
            }
            Err(_) => {
                writeln!(trace, "{}", json!({"ev":"rt1","case":id,"encoded":false,"decoded":false,"equal":false,"diffs":["PANIC"],"len":0,"records":0})).unwrap();
            }
        }
        // B. accepted bytes -> value -> bytes -> value, RDATA preserved
        let b = if case % 5 == 0 { corpus[rng.random_range(0..corpus.len())].clone() } else { mutate(&mut rng, &corpus) };
        let r = catch_unwind(AssertUnwindSafe(|| -> Option<Value> {
            let m1 = Message::from_vec(&b).ok()?;
            let b2 = match m1.to_vec() {
                Ok(x) => x,
                Err(e) => return Some(json!({"ev":"rt2","case":id,"reencoded":false,"error":e.to_string(),"equal":false,"truncated":false,"rdataPreserved":true,"compared":0})),
            };
            let m2 = match Message::from_vec(&b2) {
                Ok(x) => x,
                Err(e) => return Some(json!({"ev":"rt2","case":id,"reencoded":true,"redecoded":false,"error":e.to_string(),"equal":false,"truncated":false,"rdataPreserved":true,"compared":0})),
            };
            let diffs = messages_equal(&m1, &m2);
            let mut preserved = true;
            let mut compared = 0;
            let mut bad_type = 0u16;
            if let (Some(w1), Some(w2)) = (walk(&b), walk(&b2)) {
                // OPT and TSIG are re-synthesised at the end: compare the others in order
                let f = |w: &Walk| -> Vec<(u16, usize, usize)> { w.recs.iter().filter(|r| r.0 != 41 && r.0 != 250).map(|r| (r.0, r.1, r.2)).collect() };
                for (x, y) in f(&w1).iter().zip(f(&w2).iter()) {
                    if x.0 != y.0 {
                        break;
                    }
                    let rd1 = &b[x.1..x.2];
                    let rd2 = &b2[y.1..y.2];
                    if nameless(x.0) || (uncompressible_names(x.0) && !rd1.iter().any(|o| *o >= 0xC0)) {
                        compared += 1;
                        if rd1 != rd2 {
                            preserved = false;
                            bad_type = x.0;
                        }
                    }
                }
            }
            Some(json!({"ev":"rt2","case":id,"reencoded":true,"redecoded":true,"equal":diffs.is_empty(),"diffs":diffs,"truncated":m2.metadata.truncation,
                "rdataPreserved":preserved,"badType":bad_type,"compared":compared,"len":b.len()}))
        }));
        match r {
            Ok(Some(e)) => writeln!(trace, "{e}").unwrap(),
            Ok(None) => {}
            Err(_) => writeln!(trace, "{}", json!({"ev":"rt2","case":id,"reencoded":false,"error":"PANIC","equal":false,"truncated":false,"rdataPreserved":false,"compared":0,"bytes":b})).unwrap(),
        }
    }
}

// ------------------------------------------------------------------------------------------
// grammar mode: primitives -> bytes

const QNAME_AT: usize = 12;
/// offset of the first record (after the header and the question www.example.com. A IN)
const REC_AT: usize = 12 + 17 + 4;

fn name_shape(v: &str, at: usize) -> Vec<u8> {
    fn labels(ls: &[&[u8]]) -> Vec<u8> {
        let mut o = Vec::new();
        for l in ls {
            o.push(l.len() as u8);
            o.extend_from_slice(l);
        }
        o.push(0);
        o
    }
    let l63 = [b'x'; 63];
    match v {
        "plain" => labels(&[b"ns1", b"example", b"net"]),
        "root" => vec![0],
        "upper" => labels(&[b"NS1", b"Example", b"NET"]),
        "sibling" => labels(&[b"mail", b"example", b"com"]),
        "label63" => labels(&[&l63, b"net"]),
        "long255" => labels(&[&l63, &l63, &l63, &[b'y'; 61]]),
        "toolong256" => labels(&[&l63, &l63, &l63, &[b'y'; 62]]),
        "label64" => {
            let mut o = vec![64u8];
            o.extend_from_slice(&[b'z'; 64]);
            o.push(0);
            o
        }
        "ptr" => vec![0xC0, QNAME_AT as u8],
        "lblptr" => vec![3, b'a', b'b', b'c', 0xC0, QNAME_AT as u8],
        "ptrchain" => vec![0xC0, REC_AT as u8],
        "ptrself" => vec![0xC0 | ((at >> 8) as u8 & 0x3F), at as u8],
        "ptrfwd" => vec![0xC0 | (((at + 2) >> 8) as u8 & 0x3F), (at + 2) as u8],
        "cut" => vec![9, b'a', b'b'],
        "hmac-sha256" => labels(&[b"hmac-sha256"]),
        "hmac-sha512" => labels(&[b"hmac-sha512"]),
        other => panic!("unknown name shape {other}"),
    }
}

/// serialise a sequence of primitives; `at` = absolute offset of the first octet in the message
fn prims_bytes(ps: &Value, at: usize) -> Vec<u8> {
    let mut o = Vec::new();
    for p in ps.as_array().map(|a| a.as_slice()).unwrap_or(&[]) {
        match p["p"].as_str().unwrap() {
            "u" => {
                let w = p["w"].as_u64().unwrap() as usize;
                let n = p["n"].as_i64().unwrap();
                if n < 0 {
                    o.extend(std::iter::repeat(0xFF).take(w));
                } else {
                    let b = (n as u64).to_be_bytes();
                    o.extend_from_slice(&b[8 - w..]);
                }
            }
            "b" => o.extend(std::iter::repeat(p["f"].as_u64().unwrap() as u8).take(p["n"].as_u64().unwrap() as usize)),
            "x" => o.extend(p["bytes"].as_array().map(|a| a.as_slice()).unwrap_or(&[]).iter().map(|x| x.as_u64().unwrap() as u8)),
            "name" => o.extend(name_shape(p["v"].as_str().unwrap(), at + o.len())),
            "len" => {
                let w = p["w"].as_u64().unwrap() as usize;
                let body = prims_bytes(&p["body"], at + o.len() + w);
                let max = if w == 1 { 255i64 } else { 65535 };
                let n = (body.len() as i64 + p["d"].as_i64().unwrap()).clamp(0, max) as u64;
                o.extend_from_slice(&n.to_be_bytes()[8 - w..]);
                o.extend(body);
            }
            other => panic!("unknown primitive {other}"),
        }
    }
    o
}

struct Built {
    msg: Vec<u8>,
    /// where the RDATA of the record under test starts / how long RDLENGTH says it is / how many octets were written
    rdata_at: usize,
    rdlen: usize,
    rdata: Vec<u8>,
    /// one past the record under test as RDLENGTH frames it
    rec_end: usize,
}

fn build_case(c: &Value) -> Built {
    let ctx = &c["ctx"];
    let code = c["code"].as_u64().unwrap() as u16;
    let opcode = ctx["opcode"].as_u64().unwrap() as u8;
    let follow = ctx["follow"] == "more";
    let nrec: u16 = if follow { 2 } else { 1 };
    let (an, ns, ar) = match ctx["sec"].as_str().unwrap() {
        "an" => (nrec, 0, 0),
        "ns" => (0, nrec, 0),
        _ => (0, 0, nrec),
    };
    let mut m = vec![0x12, 0x34, (opcode << 3) | 0x01, 0x00, 0, 1];
    for cnt in [an, ns, ar] {
        m.extend_from_slice(&cnt.to_be_bytes());
    }
    m.extend_from_slice(b"\x03www\x07example\x03com\x00\x00\x01\x00\x01");
    assert_eq!(m.len(), REC_AT);
    // the record under test
    let class: u16 = if code == 41 { 1232 } else { ctx["class"].as_u64().unwrap() as u16 };
    let ttl: u32 = if code == 41 || code == 250 { 0 } else { 300 };
    if code == 41 {
        m.push(0);
    } else {
        m.extend_from_slice(&[0xC0, QNAME_AT as u8]);
    }
    m.extend_from_slice(&code.to_be_bytes());
    m.extend_from_slice(&class.to_be_bytes());
    m.extend_from_slice(&ttl.to_be_bytes());
    let rdata_at = m.len() + 2;
    let mut rdata = prims_bytes(&c["prims"], rdata_at);
    let rdlen = match ctx["rdlen"].as_str().unwrap() {
        "exact" => rdata.len(),
        "zero" => {
            rdata.clear();
            0
        }
        "minus1" => rdata.len().saturating_sub(1),
        "plus1" => rdata.len() + 1,
        "pad1" => {
            rdata.push(0);
            rdata.len()
        }
        other => panic!("unknown rdlen policy {other}"),
    }
    .min(65535);
    // prefix sweep (kind "trunc"): the RDATA ends after `cut` octets and RDLENGTH says so
    let rdlen = match c["cut"].as_u64() {
        Some(k) => {
            rdata.truncate(k as usize);
            rdata.len()
        }
        None => rdlen,
    };
    m.extend_from_slice(&(rdlen as u16).to_be_bytes());
    m.extend_from_slice(&rdata);
    if follow {
        m.extend_from_slice(&[0xC0, QNAME_AT as u8, 0, 1, 0, 1, 0, 0, 1, 44, 0, 4, 198, 51, 100, 7]);
    }
    Built { rec_end: rdata_at + rdlen, msg: m, rdata_at, rdlen, rdata }
}

/// EDNS options of an OPT RDATA, sorted (independent walker)
fn opt_options(rd: &[u8]) -> Option<Vec<(u16, Vec<u8>)>> {
    let mut v = Vec::new();
    let mut i = 0;
    while i < rd.len() {
        if i + 4 > rd.len() {
            return None;
        }
        let code = u16::from_be_bytes([rd[i], rd[i + 1]]);
        let len = u16::from_be_bytes([rd[i + 2], rd[i + 3]]) as usize;
        if i + 4 + len > rd.len() {
            return None;
        }
        v.push((code, rd[i + 4..i + 4 + len].to_vec()));
        i += 4 + len;
    }
    v.sort();
    Some(v)
}

fn thread_cpu_us() -> u64 {
    let mut ts = libc::timespec { tv_sec: 0, tv_nsec: 0 };
    // SAFETY: plain syscall writing into a local
    unsafe { libc::clock_gettime(libc::CLOCK_THREAD_CPUTIME_ID, &mut ts) };
    ts.tv_sec as u64 * 1_000_000 + ts.tv_nsec as u64 / 1000
}

fn outcome_of<T>(r: std::thread::Result<Result<T, String>>) -> (String, String, Option<T>) {
    match r {
        Ok(Ok(v)) => ("ok".into(), String::new(), Some(v)),
        Ok(Err(e)) => ("err".into(), e, None),
        Err(p) => {
            let msg = p.downcast_ref::<&str>().map(|s| s.to_string()).or_else(|| p.downcast_ref::<String>().cloned()).unwrap_or_default();
            ("PANIC".into(), msg, None)
        }
    }
}

/// everything the entry points do with one grammar case (runs on a worker thread)
fn grammar_case(c: &Value) -> Value {
    let b = build_case(c);
    let bytes = &b.msg;
    let code = c["code"].as_u64().unwrap() as u16;
    let t0 = thread_cpu_us();
    // full message, then the re-encoding fixpoint and the byte-for-byte clause
    let (m_out, m_err, m_val) = outcome_of(catch_unwind(AssertUnwindSafe(|| Message::from_vec(bytes).map_err(|e| e.to_string()))));
    let mut msg = json!({"out": m_out, "err": m_err, "fix": "n/a", "rdataSame": "n/a", "limits": true, "present": "n/a", "types": []});
    if let Some(m1) = m_val {
        // the decoded type set of the first NSEC / NSEC3 / CSYNC record
        if let Some(r) = m1.answers.iter().chain(m1.authorities.iter()).chain(m1.additionals.iter()).next() {
            let ts: Option<Vec<u16>> = match &r.data {
                RData::DNSSEC(DNSSECRData::NSEC(n)) => Some(n.type_set().iter().map(u16::from).collect()),
                RData::DNSSEC(DNSSECRData::NSEC3(n)) => Some(n.type_set().iter().map(u16::from).collect()),
                RData::CSYNC(c) => Some(c.type_bit_maps.iter().map(u16::from).collect()),
                _ => None,
            };
            if let Some(mut ts) = ts {
                ts.sort_unstable();
                msg["types"] = json!(ts);
            }
        }
        let (l, w) = name_limits(&message_names(&m1));
        msg["limits"] = json!(l <= 63 && w <= 255);
        // is the record under test part of what was decoded (as a record, as EDNS, or as the signature)?
        let n_rec = m1.answers.len() + m1.authorities.len() + m1.additionals.len() + m1.edns.is_some() as usize + m1.signature.is_some() as usize;
        msg["present"] = json!(n_rec >= 1);
        let re = catch_unwind(AssertUnwindSafe(|| m1.to_vec().map_err(|e| e.to_string())));
        match outcome_of(re) {
            (o, e, None) => msg["fix"] = json!(format!("reencode-{o}:{e}")),
            (_, _, Some(bytes2)) => {
                let (o2, e2, m2) = outcome_of(catch_unwind(AssertUnwindSafe(|| Message::from_vec(&bytes2).map_err(|e| e.to_string()))));
                match m2 {
                    None => msg["fix"] = json!(format!("redecode-{o2}:{e2}")),
                    Some(m2) => {
                        let d = messages_equal(&m1, &m2);
                        msg["fix"] = if d.is_empty() { json!("equal") } else { json!(format!("differs:{}", d.join(","))) };
                    }
                }
                // the record under test is the first record of the message, in the original and in the re-encoding
                // (OPT is moved behind the other additional records: looked up by type)
                if let Some(w2) = walk(&bytes2) {
                    let found = if code == 41 { w2.recs.iter().find(|r| r.0 == 41) } else { w2.recs.first() };
                    if let Some((t2, s2, e2, _)) = found {
                        if *t2 == code && code == 41 {
                            // options as a multiset of (code, value)
                            let (a, c2) = (opt_options(&b.rdata), opt_options(&bytes2[*s2..*e2]));
                            msg["rdataSame"] = json!(if a.is_some() && a == c2 { "yes" } else { "no" });
                        } else if *t2 == code {
                            msg["rdataSame"] = json!(if bytes2[*s2..*e2] == b.rdata[..] { "yes" } else { "no" });
                        } else {
                            msg["rdataSame"] = json!(format!("first-record-type-{t2}"));
                        }
                        if msg["rdataSame"] == "no" {
                            msg["reRdata"] = json!(bytes2[*s2..*e2].to_vec());
                        }
                    } else {
                        msg["rdataSame"] = json!("no-record");
                    }
                }
            }
        }
    }
    let t1 = thread_cpu_us();
    let (q_out, q_err, _) = outcome_of(catch_unwind(AssertUnwindSafe(|| {
        let src: SocketAddr = "192.0.2.1:53".parse().unwrap();
        Request::from_bytes(bytes.to_vec(), src, Protocol::Udp).map(|_| ()).map_err(|e| e.to_string())
    })));
    let t2 = thread_cpu_us();
    let (r_out, r_err, r_val) = outcome_of(catch_unwind(AssertUnwindSafe(|| {
        let mut d = BinDecoder::new(bytes).clone(REC_AT as u16);
        let r = Record::read(&mut d).map_err(|e| e.to_string())?;
        let (l, w) = name_limits(&[&r.name]);
        Ok((d.index(), l <= 63 && w <= 255))
    })));
    let t3 = thread_cpu_us();
    let (d_out, d_err, _) = outcome_of(catch_unwind(AssertUnwindSafe(|| {
        let mut d = BinDecoder::new(bytes).clone(b.rdata_at as u16);
        let sub = d.split_off(b.rdlen).map_err(|e| e.to_string())?;
        RData::read(sub, RecordType::from(code)).map(|_| ()).map_err(|e| e.to_string())
    })));
    let t4 = thread_cpu_us();
    json!({"ev": "g", "case": c["id"], "kind": c["kind"], "type": c["type"], "code": code, "tags": c["tags"], "ctx": c["ctx"], "tlv": c["tlv"], "cut": c["cut"].as_i64().unwrap_or(-1),
        "len": bytes.len(), "rdlen": b.rdlen, "recEnd": b.rec_end,
        "msg": msg, "req": {"out": q_out, "err": q_err},
        "rec": {"out": r_out, "err": r_err, "next": r_val.map(|v| v.0 as i64).unwrap_or(-1), "limits": r_val.map(|v| v.1).unwrap_or(true)},
        "rdata": {"out": d_out, "err": d_err},
        "cpuUs": [t1 - t0, t2 - t1, t3 - t2, t4 - t3]})
}

/// a persistent worker thread running `f` on jobs; `call` gives None if the worker does not come back
/// within `secs` (it is then left behind, spinning, and replaced)
struct Worker<J: Send + 'static, R: Send + 'static> {
    f: fn(J) -> R,
    tx: mpsc::Sender<J>,
    rx: mpsc::Receiver<R>,
}
impl<J: Send + 'static, R: Send + 'static> Worker<J, R> {
    fn new(f: fn(J) -> R) -> Self {
        let (tx, jrx) = mpsc::channel::<J>();
        let (rtx, rx) = mpsc::channel::<R>();
        std::thread::Builder::new()
            .stack_size(16 << 20)
            .spawn(move || {
                while let Ok(j) = jrx.recv() {
                    if rtx.send(f(j)).is_err() {
                        return;
                    }
                }
            })
            .unwrap();
        Self { f, tx, rx }
    }
    fn call(&mut self, j: J, secs: u64) -> Option<R> {
        self.tx.send(j).unwrap();
        match self.rx.recv_timeout(Duration::from_secs(secs)) {
            Ok(r) => Some(r),
            Err(_) => {
                *self = Self::new(self.f);
                None
            }
        }
    }
}

fn read_name_job((buf, start): (Vec<u8>, usize)) -> Result<Result<(Value, usize), String>, ()> {
    catch_unwind(AssertUnwindSafe(|| {
        let mut d = BinDecoder::new(&buf).clone(start as u16);
        Name::read(&mut d).map(|n| (labels_json(&n), d.index())).map_err(|e| e.to_string())
    }))
    .map_err(|_| ())
}

fn grammar_mode(trace: &mut dyn io::Write, out: &mut dyn io::Write) {
    let mut hangs = 0;
    let mut n = 0usize;
    let mut events = 0usize;
    let mut worker: Worker<Value, Value> = Worker::new(|c| grammar_case(&c));
    for line in io::stdin().lock().lines() {
        let line = line.unwrap();
        if line.trim().is_empty() {
            continue;
        }
        let c0: Value = serde_json::from_str(&line).unwrap();
        n += 1;
        // a "trunc" case stands for every proper prefix of its RDATA
        let variants: Vec<Value> = if c0["kind"] == "trunc" {
            (0..build_case(&c0).rdata.len())
                .map(|k| {
                    let mut c = c0.clone();
                    c["cut"] = json!(k);
                    c["id"] = json!(format!("{}-cut{k}", c0["id"].as_str().unwrap_or("?")));
                    c
                })
                .collect()
        } else {
            vec![c0]
        };
        for c in variants {
        let ev = match worker.call(c.clone(), 20) {
            Some(ev) => ev,
            None => {
                hangs += 1;
                let b = build_case(&c);
                json!({"ev": "g", "case": c["id"], "kind": c["kind"], "type": c["type"], "code": c["code"], "tags": c["tags"], "ctx": c["ctx"], "tlv": c["tlv"], "cut": c["cut"].as_i64().unwrap_or(-1),
                    "len": b.msg.len(), "rdlen": b.rdlen, "recEnd": b.rec_end,
                    "msg": {"out": "HANG", "err": "", "fix": "n/a", "rdataSame": "n/a", "limits": true, "present": "n/a"},
                    "req": {"out": "HANG", "err": ""}, "rec": {"out": "HANG", "err": "", "next": -1, "limits": true},
                    "rdata": {"out": "HANG", "err": ""}, "cpuUs": [0, 0, 0, 0], "bytes": b.msg})
            }
        };
        writeln!(trace, "{ev}").unwrap();
        events += 1;
        if hangs >= 3 {
            break;
        }
        }
        if hangs >= 3 {
            break;
        }
    }
    writeln!(out, "{}", json!({"cases": n, "events": events, "hangs": hangs})).unwrap();
}

fn main() {
    let args: Vec<String> = std::env::args().collect();
    let mode = args.get(1).map(String::as_str).unwrap_or("");
    let mut trace_path = None;
    let mut n_cases = 2000usize;
    let mut seed = vh::util::seed_from_env();
    let mut i = 2;
    while i < args.len() {
        let v = args.get(i + 1).cloned().unwrap_or_default();
        match args[i].as_str() {
            "--trace" => trace_path = Some(v),
            "--n" => n_cases = v.parse().unwrap(),
            "--seed" => seed = v.parse().unwrap(),
            _ => {
                i += 1;
                continue;
            }
        }
        i += 2;
    }
    let mut trace: Box<dyn io::Write> = match &trace_path {
        Some(p) => Box::new(io::BufWriter::new(std::fs::File::create(p).unwrap())),
        None => Box::new(io::sink()),
    };
    let stdout = io::stdout();
    let mut out = io::BufWriter::new(stdout.lock());
    if std::env::var("VERIF_SHOW_PANICS").is_err() {
        std::panic::set_hook(Box::new(|_| {}));
    }
    match mode {
        "replay-names" => {
            let mut hung = 0;
            let mut worker: Worker<(Vec<u8>, usize), _> = Worker::new(read_name_job);
            for (ln, line) in io::stdin().lock().lines().enumerate() {
                let line = line.unwrap();
                if line.trim().is_empty() {
                    continue;
                }
                let c: Value = serde_json::from_str(&line).unwrap();
                let buf: Vec<u8> = c["buf"].as_array().unwrap().iter().map(|x| x.as_u64().unwrap() as u8).collect();
                let start = c["start"].as_u64().unwrap() as usize;
                // a reader that does not come back is an observation (HANG), not a dead driver
                let r = worker.call((buf.clone(), start), 20);
                let exp_ok = c["ok"].as_bool().unwrap();
                let (ok, obs) = match r {
                    Some(Ok(Ok((labels, next)))) => (exp_ok && labels == c["labels"] && next as u64 == c["next"].as_u64().unwrap(), json!({"ok": true, "labels": labels, "next": next})),
                    Some(Ok(Err(e))) => (!exp_ok, json!({"ok": false, "error": e})),
                    Some(Err(_)) => (false, json!({"ok": false, "error": "PANIC"})),
                    None => {
                        hung += 1;
                        (false, json!({"ok": false, "error": "HANG"}))
                    }
                };
                if hung > 3 {
                    break;
                }
                writeln!(out, "{}", json!({"case": ln, "ok": ok, "class": if obs["error"] == "PANIC" { "panic" } else if obs["error"] == "HANG" { "hang" } else if exp_ok { "valid-name-refused-or-misread" } else { "invalid-name-accepted" },
                    "nontrivial": buf.iter().any(|b| *b >= 192), "observed": obs, "input": c})).unwrap();
            }
        }
        "record-decode" => {
            let mut rng = StdRng::seed_from_u64(seed);
            let (corpus, types) = corpus_messages(&mut rng);
            writeln!(out, "{}", json!({"corpus_messages": corpus.len(), "types": types})).unwrap();
            // watchdog: the decoding runs on this thread, a monitor thread aborts the process if a
            // single input takes longer than the budget (a hang must not look like a pass)
            let (tx, rx) = mpsc::channel::<(u64, Vec<u8>)>();
            let wd_path = trace_path.clone().unwrap_or_default() + ".hang";
            std::thread::spawn(move || {
                let mut cur: Option<(u64, Vec<u8>, Instant)> = None;
                loop {
                    match rx.recv_timeout(Duration::from_millis(200)) {
                        Ok((id, b)) => cur = if b.is_empty() && id == u64::MAX { None } else { Some((id, b, Instant::now())) },
                        Err(mpsc::RecvTimeoutError::Timeout) => {
                            if let Some((id, b, t)) = &cur {
                                if t.elapsed() > Duration::from_secs(20) {
                                    let _ = std::fs::write(&wd_path, serde_json::to_vec(&json!({"case": id, "bytes": b})).unwrap());
                                    std::process::exit(3);
                                }
                            }
                        }
                        Err(_) => return,
                    }
                }
            });
            for case in 0..n_cases as u64 {
                let bytes = match case % 50 {
                    0 => adversarial((case / 50) as usize),
                    1 | 2 => (0..rng.random_range(0..600)).map(|_| rng.random()).collect(),
                    3 => corpus[rng.random_range(0..corpus.len())].clone(),
                    _ => mutate(&mut rng, &corpus),
                };
                tx.send((case, bytes.clone())).unwrap();
                let t0 = Instant::now();
                let results = decode_all(&bytes, &mut rng);
                let ms = t0.elapsed().as_millis() as u64;
                tx.send((u64::MAX, Vec::new())).unwrap();
                for (entry, (outcome, consumed, ml, mw, err), len) in results {
                    let mut e = json!({"ev":"decode","case":format!("s{seed}-{case}"),"entry":entry,"len":len,"outcome":outcome,"consumed":consumed,
                        "maxLabel":ml,"maxNameWire":mw,"ms":ms});
                    if outcome == "PANIC" {
                        e["panic"] = json!(err);
                        e["bytes"] = json!(bytes);
                    }
                    writeln!(trace, "{e}").unwrap();
                }
            }
        }
        "grammar" => grammar_mode(&mut trace, &mut out),
        "record-roundtrip" => {
            record_roundtrip(seed, n_cases, &mut trace);
            writeln!(out, "{}", json!({"cases": n_cases})).unwrap();
        }
        _ => {
            eprintln!("usage: drive_wire replay-names|record-decode|record-roundtrip|grammar");
            std::process::exit(2);
        }
    }
    trace.flush().unwrap();
}
