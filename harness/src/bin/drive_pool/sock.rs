//! Socket level of the C18 driver: a scripted `RuntimeProvider`. The pool gets its connections from
//! the real `impl<P: RuntimeProvider> ConnectionProvider for P` (connection_provider.rs), so the real
//! `DnsExchange`, `DnsMultiplexer`, `TcpClientStream` and `UdpClientStream` -- with their own
//! per-request and connect timeouts -- sit between the pool and the script.
//!
//! * `connect_tcp` follows the server's connection script (established after a latency, refused,
//!   black-holed) and enforces the time limit it is *given*; every call is logged as an attempt of
//!   transport "conn" together with that limit.
//! * a TCP stream reads length-prefixed requests, replies per the server's TCP script at the scripted
//!   (virtual) time, may reset, stay silent, and closes the connection when idle if the server says so.
//! * a UDP socket does the same per datagram; a retransmission (same server, id and question while
//!   the first datagram is still unanswered) is not a new attempt.
use std::collections::VecDeque;
use std::future::Future;
use std::io;
use std::net::SocketAddr;
use std::pin::Pin;
use std::sync::Mutex;
use std::task::{Context, Poll};
use std::time::Duration;

use futures_io::{AsyncRead, AsyncWrite};
use hickory_net::runtime::{DnsTcpStream, DnsUdpSocket, RuntimeProvider, TokioHandle, TokioTime};
use hickory_proto::op::Message;
use hickory_proto::serialize::binary::BinDecodable;
use serde_json::json;
use tokio::time::{Instant, Sleep};

use crate::{answer_message, nx_message, qindex, trunc_message, Beh, Sim};

fn server_of(addr: SocketAddr) -> usize {
    match addr.ip() {
        std::net::IpAddr::V4(a) => a.octets()[3] as usize,
        _ => 0,
    }
}

fn pick(script: &[Beh], n: usize) -> Beh {
    script[(n - 1).min(script.len() - 1)].clone()
}

#[derive(Clone)]
pub struct SockProvider {
    sim: Sim,
    handle: TokioHandle,
}

impl SockProvider {
    pub fn new(sim: Sim) -> Self {
        Self { sim, handle: TokioHandle::default() }
    }
}

impl RuntimeProvider for SockProvider {
    type Handle = TokioHandle;
    type Timer = TokioTime;
    type Udp = SimUdp;
    type Tcp = SimTcp;

    fn create_handle(&self) -> Self::Handle {
        self.handle.clone()
    }

    fn connect_tcp(&self, server_addr: SocketAddr, _bind_addr: Option<SocketAddr>, timeout: Option<Duration>) -> Pin<Box<dyn Send + Future<Output = Result<Self::Tcp, io::Error>>>> {
        let sim = self.sim.clone();
        let s = server_of(server_addr);
        let (k, beh, idle, cur) = {
            let mut g = sim.0.lock().unwrap();
            let c = g.conns.entry(s).or_insert(0);
            *c += 1;
            let k = *c;
            let srv = &g.cfg.servers[s - 1];
            (k, pick(&srv.tc, k), srv.idle, g.cur)
        };
        let limit = timeout.map(|d| d.as_millis() as u64);
        sim.push(json!({"ev":"att","s":s,"p":"conn","n":k,"o":cur.0,"q":cur.1,"rd":cur.2,"cd":cur.3,"t":sim.now_ms(),"limit":limit.unwrap_or(0)}));
        Box::pin(async move {
            let lim = limit.unwrap_or(u64::MAX / 4);
            let end = |res: &str| sim.push(json!({"ev":"end","s":s,"p":"conn","n":k,"t":sim.now_ms(),"res":res}));
            match beh.k.as_str() {
                "ok" if beh.lat < lim => {
                    tokio::time::sleep(Duration::from_millis(beh.lat)).await;
                    end("connected");
                    Ok(SimTcp { sim: sim.clone(), s, idle, st: Mutex::new(TcpState::default()) })
                }
                "refused" if beh.lat < lim => {
                    tokio::time::sleep(Duration::from_millis(beh.lat)).await;
                    end("io");
                    Err(io::Error::new(io::ErrorKind::ConnectionRefused, "connection refused"))
                }
                // black-holed, or slower than the caller is willing to wait
                _ => {
                    tokio::time::sleep(Duration::from_millis(lim)).await;
                    end("io");
                    Err(io::Error::new(io::ErrorKind::TimedOut, "connect timed out"))
                }
            }
        })
    }

    fn bind_udp(&self, _local_addr: SocketAddr, server_addr: SocketAddr) -> Pin<Box<dyn Send + Future<Output = Result<Self::Udp, io::Error>>>> {
        let u = SimUdp { sim: self.sim.clone(), s: server_of(server_addr), st: Mutex::new(UdpState::default()) };
        Box::pin(std::future::ready(Ok(u)))
    }
}

/// what comes back for one request, and when
struct Due {
    at: Instant,
    bytes: Option<Vec<u8>>, // None: the connection is reset / an ICMP error comes back
    n: usize,
    res: String,
}

/// schedules the scripted reply to request number n (None: the server stays silent)
fn plan(beh: &Beh, ta: u64, req: &Message, s: usize, tcp: bool, n: usize) -> Option<Due> {
    if beh.k == "timeout" || beh.lat >= ta {
        return None;
    }
    let at = Instant::now() + Duration::from_millis(beh.lat);
    let msg = match beh.k.as_str() {
        "answer" => Some(answer_message(req, s, tcp)),
        "nx" => Some(nx_message(req)),
        "trunc" => Some(trunc_message(req)),
        "io" | "ioperm" | "recvfail" => None,
        other => panic!("behaviour {other} has no socket-level form"),
    };
    let res = if beh.k == "ioperm" || beh.k == "recvfail" { "io".to_string() } else { beh.k.clone() };
    Some(Due { at, bytes: msg.map(|m| m.to_vec().expect("encode reply")), n, res })
}

fn wait_until(slot: &mut Option<Pin<Box<Sleep>>>, at: Instant, cx: &mut Context<'_>) -> bool {
    *slot = Some(Box::pin(tokio::time::sleep_until(at)));
    slot.as_mut().unwrap().as_mut().poll(cx).is_pending()
}

// ------------------------------------------------------------------------------------------

#[derive(Default)]
struct UdpState {
    inbox: VecDeque<Due>,
    from: Option<SocketAddr>,
    sleep: Option<Pin<Box<Sleep>>>,
}

pub struct SimUdp {
    sim: Sim,
    s: usize,
    st: Mutex<UdpState>,
}

impl DnsUdpSocket for SimUdp {
    type Time = TokioTime;

    fn poll_recv_from(&self, cx: &mut Context<'_>, buf: &mut [u8]) -> Poll<io::Result<(usize, SocketAddr)>> {
        let mut st = self.st.lock().unwrap();
        loop {
            let Some(at) = st.inbox.front().map(|d| d.at) else {
                return Poll::Pending; // nothing (more) arrives on this socket
            };
            if at <= Instant::now() {
                let d = st.inbox.pop_front().unwrap();
                self.sim.push(json!({"ev":"end","s":self.s,"p":"udp","n":d.n,"t":self.sim.now_ms(),"res":d.res}));
                return match d.bytes {
                    Some(b) => {
                        let n = b.len().min(buf.len());
                        buf[..n].copy_from_slice(&b[..n]);
                        Poll::Ready(Ok((n, st.from.expect("sent before received"))))
                    }
                    None => Poll::Ready(Err(io::Error::new(io::ErrorKind::ConnectionReset, "port unreachable"))),
                };
            }
            let UdpState { sleep, .. } = &mut *st;
            if wait_until(sleep, at, cx) {
                return Poll::Pending;
            }
        }
    }

    fn poll_send_to(&self, _cx: &mut Context<'_>, buf: &[u8], target: SocketAddr) -> Poll<io::Result<usize>> {
        let req = Message::from_bytes(buf).expect("request decodes");
        let id = req.metadata.id;
        let q = req.queries.first().map(|q| qindex(&q.name)).unwrap_or(0);
        let now = self.sim.now_ms();
        let (n, beh, ta) = {
            let mut g = self.sim.0.lock().unwrap();
            let ta = g.cfg.ta;
            // a retransmission of a datagram that is still unanswered is not a new attempt
            if let Some(start) = g.udp_seen.get(&(self.s, id, q)) {
                if now < start + ta {
                    return Poll::Ready(Ok(buf.len()));
                }
            }
            g.udp_seen.insert((self.s, id, q), now);
            let c = g.counts.entry((self.s, false)).or_insert(0);
            *c += 1;
            let n = *c;
            (n, pick(&g.cfg.servers[self.s - 1].udp, n), ta)
        };
        self.sim.push(json!({"ev":"att","s":self.s,"p":"udp","n":n,"o":id,"q":q,"rd":req.metadata.recursion_desired as u64,"cd":req.metadata.checking_disabled as u64,"t":now}));
        if beh.k == "sendfail" {
            // the local stack refuses the datagram at once: no route to the server
            self.sim.push(json!({"ev":"end","s":self.s,"p":"udp","n":n,"t":now,"res":"io"}));
            return Poll::Ready(Err(io::Error::new(io::ErrorKind::NetworkUnreachable, "network is unreachable")));
        }
        let mut st = self.st.lock().unwrap();
        st.from = Some(target);
        if let Some(d) = plan(&beh, ta, &req, self.s, false, n) {
            st.inbox.push_back(d);
        }
        Poll::Ready(Ok(buf.len()))
    }
}

// ------------------------------------------------------------------------------------------

#[derive(Default)]
struct TcpState {
    outbuf: Vec<u8>,      // client -> server, not yet a whole frame
    inbox: VecDeque<Due>, // replies on their way (kept sorted by time)
    ready: VecDeque<u8>,  // server -> client, deliverable now
    outstanding: usize,
    close_at: Option<Instant>,
    closed: bool,
    sleep: Option<Pin<Box<Sleep>>>,
}

pub struct SimTcp {
    sim: Sim,
    s: usize,
    idle: u64,
    st: Mutex<TcpState>,
}

impl DnsTcpStream for SimTcp {
    type Time = TokioTime;
}

impl AsyncRead for SimTcp {
    fn poll_read(self: Pin<&mut Self>, cx: &mut Context<'_>, buf: &mut [u8]) -> Poll<io::Result<usize>> {
        let mut st = self.st.lock().unwrap();
        loop {
            if !st.ready.is_empty() {
                let n = st.ready.len().min(buf.len());
                for b in buf.iter_mut().take(n) {
                    *b = st.ready.pop_front().unwrap();
                }
                return Poll::Ready(Ok(n));
            }
            if st.closed {
                return Poll::Ready(Ok(0));
            }
            let now = Instant::now();
            if let Some(at) = st.inbox.front().map(|d| d.at) {
                if at <= now {
                    let d = st.inbox.pop_front().unwrap();
                    st.outstanding = st.outstanding.saturating_sub(1);
                    self.sim.push(json!({"ev":"end","s":self.s,"p":"tcp","n":d.n,"t":self.sim.now_ms(),"res":d.res}));
                    match d.bytes {
                        Some(b) => {
                            st.ready.extend((b.len() as u16).to_be_bytes());
                            st.ready.extend(b);
                            if st.outstanding == 0 && self.idle > 0 {
                                st.close_at = Some(now + Duration::from_millis(self.idle));
                            }
                            continue;
                        }
                        None => {
                            st.closed = true;
                            return Poll::Ready(Err(io::Error::new(io::ErrorKind::ConnectionReset, "connection reset by peer")));
                        }
                    }
                }
            }
            if let Some(c) = st.close_at {
                if c <= now {
                    // the server closes the idle connection
                    st.closed = true;
                    continue;
                }
            }
            let next = match (st.inbox.front().map(|d| d.at), st.close_at) {
                (Some(a), Some(c)) => Some(a.min(c)),
                (a, c) => a.or(c),
            };
            let Some(next) = next else {
                return Poll::Pending; // nothing scheduled: the next write happens in this same task
            };
            let TcpState { sleep, .. } = &mut *st;
            if wait_until(sleep, next, cx) {
                return Poll::Pending;
            }
        }
    }
}

impl AsyncWrite for SimTcp {
    fn poll_write(self: Pin<&mut Self>, _cx: &mut Context<'_>, buf: &[u8]) -> Poll<io::Result<usize>> {
        let mut st = self.st.lock().unwrap();
        if st.closed {
            return Poll::Ready(Err(io::Error::new(io::ErrorKind::BrokenPipe, "connection closed")));
        }
        st.outbuf.extend_from_slice(buf);
        while st.outbuf.len() >= 2 {
            let len = u16::from_be_bytes([st.outbuf[0], st.outbuf[1]]) as usize;
            if st.outbuf.len() < 2 + len {
                break;
            }
            let frame: Vec<u8> = st.outbuf.drain(..2 + len).skip(2).collect();
            let req = Message::from_bytes(&frame).expect("request decodes");
            let q = req.queries.first().map(|q| qindex(&q.name)).unwrap_or(0);
            let (n, beh, ta, cur) = {
                let mut g = self.sim.0.lock().unwrap();
                let c = g.counts.entry((self.s, true)).or_insert(0);
                *c += 1;
                let n = *c;
                (n, pick(&g.cfg.servers[self.s - 1].tcp, n), g.cfg.ta, g.cur)
            };
            // over TCP the multiplexer gives the request an id of its own: the caller is the one being served
            self.sim.push(json!({"ev":"att","s":self.s,"p":"tcp","n":n,"o":cur.0,"q":q,"rd":req.metadata.recursion_desired as u64,"cd":req.metadata.checking_disabled as u64,"t":self.sim.now_ms()}));
            st.outstanding += 1;
            st.close_at = None;
            if let Some(d) = plan(&beh, ta, &req, self.s, true, n) {
                let pos = st.inbox.iter().position(|x| x.at > d.at).unwrap_or(st.inbox.len());
                st.inbox.insert(pos, d);
            }
        }
        Poll::Ready(Ok(buf.len()))
    }

    fn poll_flush(self: Pin<&mut Self>, _cx: &mut Context<'_>) -> Poll<io::Result<()>> {
        Poll::Ready(Ok(()))
    }

    fn poll_close(self: Pin<&mut Self>, _cx: &mut Context<'_>) -> Poll<io::Result<()>> {
        Poll::Ready(Ok(()))
    }
}
