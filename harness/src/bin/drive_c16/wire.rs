//! Minimal, independent DNS wire helpers for the C16 driver: a request parser (header +
//! question section, read off the bytes the code under test hands to the socket) and a
//! response builder (hand-encoded, no compression), so that what the driver logs about a
//! datagram is exactly what its bytes say -- not what hickory's encoder would have made of it.
use serde_json::{json, Value};

#[derive(Clone, Debug, PartialEq, Eq)]
pub struct Question {
    pub name: Vec<Vec<u8>>, // labels, leftmost first, exact octets
    pub qtype: u16,
    pub qclass: u16,
}

impl Question {
    pub fn to_json(&self) -> Value {
        json!({"name": self.name, "type": self.qtype, "class": self.qclass})
    }
}

#[derive(Clone, Debug)]
pub struct Parsed {
    pub id: u16,
    pub qs: Vec<Question>,
}

fn read_name(buf: &[u8], mut pos: usize) -> Option<(Vec<Vec<u8>>, usize)> {
    let mut labels = Vec::new();
    let mut end = None; // position after the name in the original stream
    let mut hops = 0;
    loop {
        let len = *buf.get(pos)? as usize;
        if len & 0xC0 == 0xC0 {
            let lo = *buf.get(pos + 1)? as usize;
            if end.is_none() {
                end = Some(pos + 2);
            }
            pos = ((len & 0x3F) << 8) | lo;
            hops += 1;
            if hops > 32 {
                return None;
            }
        } else if len == 0 {
            return Some((labels, end.unwrap_or(pos + 1)));
        } else if len > 63 {
            return None;
        } else {
            let l = buf.get(pos + 1..pos + 1 + len)?;
            labels.push(l.to_vec());
            pos += 1 + len;
        }
    }
}

/// Header ID and question section of a message.
pub fn parse(buf: &[u8]) -> Option<Parsed> {
    if buf.len() < 12 {
        return None;
    }
    let id = u16::from_be_bytes([buf[0], buf[1]]);
    let qd = u16::from_be_bytes([buf[4], buf[5]]) as usize;
    let mut pos = 12;
    let mut qs = Vec::new();
    for _ in 0..qd {
        let (name, p) = read_name(buf, pos)?;
        let t = buf.get(p..p + 4)?;
        qs.push(Question {
            name,
            qtype: u16::from_be_bytes([t[0], t[1]]),
            qclass: u16::from_be_bytes([t[2], t[3]]),
        });
        pos = p + 4;
    }
    Some(Parsed { id, qs })
}

fn put_name(out: &mut Vec<u8>, name: &[Vec<u8>]) {
    for l in name {
        out.push(l.len() as u8);
        out.extend_from_slice(l);
    }
    out.push(0);
}

/// A response (QR=1, RD, RA, NOERROR) with the given ID and question section and one answer
/// `owner A <tag as four octets>`; the tag is the last four octets of the message and
/// identifies the datagram when its content comes back out of the code under test.
pub fn build_response(id: u16, qs: &[Question], owner: &[Vec<u8>], tag: u32) -> Vec<u8> {
    let mut m = Vec::with_capacity(96);
    m.extend_from_slice(&id.to_be_bytes());
    m.extend_from_slice(&[0x81, 0x80]);
    m.extend_from_slice(&(qs.len() as u16).to_be_bytes());
    m.extend_from_slice(&1u16.to_be_bytes());
    m.extend_from_slice(&[0, 0, 0, 0]);
    for q in qs {
        put_name(&mut m, &q.name);
        m.extend_from_slice(&q.qtype.to_be_bytes());
        m.extend_from_slice(&q.qclass.to_be_bytes());
    }
    put_name(&mut m, owner);
    m.extend_from_slice(&1u16.to_be_bytes()); // A
    m.extend_from_slice(&1u16.to_be_bytes()); // IN
    m.extend_from_slice(&60u32.to_be_bytes());
    m.extend_from_slice(&4u16.to_be_bytes());
    m.extend_from_slice(&tag.to_be_bytes());
    m
}

/// The tag of a response that came out of the code under test: the A record of its answer
/// section if the parsed message has one, else the last four octets of its buffer.
pub fn tag_of_response(resp: &hickory_proto::op::DnsResponse) -> u32 {
    for rec in &resp.answers {
        if let hickory_proto::rr::RData::A(a) = &rec.data {
            return u32::from_be_bytes(a.0.octets());
        }
    }
    tag_of(resp.as_buffer())
}

/// The tag of a message built by `build_response` (0 if it cannot carry one).
pub fn tag_of(buf: &[u8]) -> u32 {
    if buf.len() < 12 + 4 {
        return 0;
    }
    let t = &buf[buf.len() - 4..];
    u32::from_be_bytes([t[0], t[1], t[2], t[3]])
}

pub fn flip_case(name: &[Vec<u8>], all: bool, pick: &mut dyn FnMut() -> bool) -> Vec<Vec<u8>> {
    // toggles the case of letters; guarantees that at least one letter changes if there is one
    let mut out: Vec<Vec<u8>> = name.to_vec();
    let mut changed = false;
    for l in out.iter_mut() {
        for b in l.iter_mut() {
            if b.is_ascii_alphabetic() && (all || pick()) {
                *b ^= 0x20;
                changed = true;
            }
        }
    }
    if !changed {
        'o: for l in out.iter_mut() {
            for b in l.iter_mut() {
                if b.is_ascii_alphabetic() {
                    *b ^= 0x20;
                    break 'o;
                }
            }
        }
    }
    out
}
