//! C16 driver -- only the queried server's matching reply completes a query.
//!
//!   drive_c16 udp-replay --trace f   < cases.ndjson > verdicts.ndjson   (Gen_UdpMatch schedules)
//!   drive_c16 udp-replay-retx --trace f < cases > verdicts             (Gen_UdpRetx: one retransmission)
//!   drive_c16 udp-record --trace f --seed S --n N [--max-dgrams D]      (random schedules, retransmissions)
//!   drive_c16 mux-replay --trace f   < cases.ndjson > verdicts.ndjson   (Gen_Mux behaviours)
//!   drive_c16 mux-record --trace f --seed S --n N [--max-reqs R] [--steps K]
//!   drive_c16 mux-stress --trace f --seed S --n N --max-reqs R          (R requests in flight at once)
//!   drive_c16 mux-bursts --trace f --seed S --n N                       (same-ID bursts, floods of > 100 arrivals)
//!   drive_c16 udp-tsig --trace f --seed S --n N                         (C13: signed requests over UdpClientStream)
//!   drive_c16 mux-tsig --trace f --seed S --n N                         (C13: signed requests, multi-message replies)
//!   drive_c16 mux-probe                                                  (observations, no verdict)
//!
//! Everything runs on a single-threaded tokio runtime with a paused clock; there is no real
//! socket, no real time and no thread scheduling involved.
mod mux;
mod tsig;
mod udp;
mod wire;

use std::io::{self, BufRead, Write};

use serde_json::Value;

fn main() {
    let args: Vec<String> = std::env::args().collect();
    let mode = args.get(1).map(String::as_str).unwrap_or("").to_string();
    let mut trace_path = None;
    let mut n = 100usize;
    let mut seed = vh::util::seed_from_env();
    let mut max_dgrams = 50usize;
    let mut max_reqs = 40usize;
    let mut steps = 200usize;
    let mut i = 2;
    while i < args.len() {
        let val = |i: usize| args.get(i + 1).cloned().unwrap_or_default();
        match args[i].as_str() {
            "--trace" => trace_path = Some(val(i)),
            "--n" => n = val(i).parse().unwrap(),
            "--seed" => seed = val(i).parse().unwrap(),
            "--max-dgrams" => max_dgrams = val(i).parse().unwrap(),
            "--max-reqs" => max_reqs = val(i).parse().unwrap(),
            "--steps" => steps = val(i).parse().unwrap(),
            _ => {
                i += 1;
                continue;
            }
        }
        i += 2;
    }
    let mut trace: Box<dyn Write> = match &trace_path {
        Some(p) => Box::new(io::BufWriter::new(std::fs::File::create(p).unwrap())),
        None => Box::new(io::sink()),
    };
    let stdout = io::stdout();
    let mut out = io::BufWriter::new(stdout.lock());
    let rt = tokio::runtime::Builder::new_current_thread().enable_time().start_paused(true).build().unwrap();

    match mode.as_str() {
        "udp-replay" | "udp-replay-retx" | "mux-replay" => {
            let stdin = io::stdin();
            let cases: Vec<Value> = stdin
                .lock()
                .lines()
                .map(|l| l.unwrap())
                .filter(|l| !l.trim().is_empty())
                .map(|l| serde_json::from_str(&l).expect("case json"))
                .collect();
            rt.block_on(async {
                for (ln, c) in cases.iter().enumerate() {
                    if mode == "udp-replay" {
                        udp::replay_one(ln, c, &mut trace, &mut out).await;
                    } else if mode == "udp-replay-retx" {
                        udp::replay_retx(ln, c, &mut trace, &mut out).await;
                    } else {
                        mux::replay_one(ln, c, &mut trace, &mut out).await;
                    }
                }
            });
        }
        "udp-record" => rt.block_on(udp::record(seed, n, max_dgrams, &mut trace, &mut out)),
        "mux-record" => rt.block_on(mux::record(seed, n, max_reqs, steps, &mut trace, &mut out)),
        "mux-stress" => rt.block_on(mux::stress(seed, n, max_reqs, &mut trace, &mut out)),
        "udp-tsig" => rt.block_on(tsig::record_udp(seed, n, &mut trace, &mut out)),
        "mux-tsig" => rt.block_on(async { tsig::record(seed, n, &mut trace, &mut out) }),
        "mux-bursts" => rt.block_on(mux::bursts(seed, n, &mut trace, &mut out)),
        "mux-probe" => rt.block_on(async {
            for burst in [1usize, 9, 10, 12, 30] {
                writeln!(out, "{}", mux::probe_backlog(burst)).unwrap();
            }
            for burst in [9usize, 12] {
                writeln!(out, "{}", mux::probe_burst_real(burst).await).unwrap();
            }
            for n in [90usize, 100, 101, 150] {
                writeln!(out, "{}", mux::probe_flood_real(n).await).unwrap();
            }
        }),
        _ => {
            eprintln!("usage: drive_c16 udp-replay|udp-record|mux-replay|mux-record [--trace f] [--n N] [--seed S]");
            std::process::exit(2);
        }
    }
    trace.flush().unwrap();
    out.flush().unwrap();
}
