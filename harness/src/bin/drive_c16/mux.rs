//! Stream half of C16: the real `DnsMultiplexer` over a scripted `DnsClientStream`, driven by
//! manual polling (noop waker) on a paused tokio clock.
//!
//! The driver owns both ends of the "connection": the receiving end of the multiplexer's
//! outbound handle (where it reads the ID each request really went out with) and the inbound
//! queue of the scripted stream (where it puts responses carrying chosen IDs, undecodable
//! messages, an error or EOF).  After every step it polls the multiplexer once and then every
//! live receiver until it is pending, and logs what they yielded.  No expected values are
//! computed here.
use std::collections::{HashSet, VecDeque};
use std::io;
use std::net::SocketAddr;
use std::pin::Pin;
use std::sync::atomic::{AtomicBool, Ordering};
use std::sync::{Arc, Mutex};
use std::task::{Context, Poll, Wake, Waker};
use std::time::Duration;

use futures_util::stream::{Stream, StreamExt};
use futures_util::task::noop_waker;
use hickory_net::runtime::TokioTime;
use hickory_net::xfer::{BufDnsStreamHandle, DnsClientStream, DnsMultiplexer, DnsRequestSender, DnsResponseStream, StreamReceiver};
use hickory_net::NetError;
use hickory_proto::op::{DnsRequest, DnsRequestOptions, Query, SerialMessage};
use hickory_proto::rr::{Name, RecordType};
use rand::rngs::StdRng;
use rand::{RngExt, SeedableRng};
use serde_json::{json, Value};

use crate::wire::{self, Question};

enum In {
    Msg(Vec<u8>),
    Err,
    Eof,
}

#[derive(Default)]
struct Inbound {
    q: VecDeque<In>,
    waker: Option<Waker>, // registered when the stream had nothing to yield, like a socket would
    over: bool,           // the stream has yielded its end (or an error): it stays ended
}

impl Inbound {
    fn push(&mut self, item: In) {
        self.q.push_back(item);
        if let Some(w) = self.waker.take() {
            w.wake();
        }
    }
}

/// The waker of the "task" that runs the multiplexer: the driver polls the multiplexer exactly
/// when this flag is set (new inbound data after the stream was pending, an expired timer, the
/// multiplexer waking itself) or when a request is handed to it -- never otherwise.  A
/// multiplexer that goes to rest with work left undone is thereby observed as it would behave
/// under a real executor.
struct WakeFlag(AtomicBool);
impl Wake for WakeFlag {
    fn wake(self: Arc<Self>) {
        self.0.store(true, Ordering::SeqCst);
    }
    fn wake_by_ref(self: &Arc<Self>) {
        self.0.store(true, Ordering::SeqCst);
    }
}

struct ScriptedStream {
    inb: Arc<Mutex<Inbound>>,
    addr: SocketAddr,
}

impl Stream for ScriptedStream {
    type Item = Result<SerialMessage, NetError>;
    fn poll_next(self: Pin<&mut Self>, cx: &mut Context<'_>) -> Poll<Option<Self::Item>> {
        let mut inb = self.inb.lock().unwrap();
        if inb.over {
            return Poll::Ready(None); // like a fused / closed socket: the end is reported again
        }
        match inb.q.pop_front() {
            None => {
                inb.waker = Some(cx.waker().clone());
                Poll::Pending
            }
            Some(In::Msg(b)) => Poll::Ready(Some(Ok(SerialMessage::new(b, self.addr)))),
            Some(In::Err) => {
                inb.over = true;
                Poll::Ready(Some(Err(NetError::from(io::Error::new(io::ErrorKind::ConnectionReset, "scripted reset")))))
            }
            Some(In::Eof) => {
                inb.over = true;
                Poll::Ready(None)
            }
        }
    }
}

impl DnsClientStream for ScriptedStream {
    type Time = TokioTime;
    fn name_server_addr(&self) -> SocketAddr {
        self.addr
    }
}

pub struct MuxRun {
    mux: DnsMultiplexer<ScriptedStream>,
    out_rx: StreamReceiver,
    inb: Arc<Mutex<Inbound>>,
    rx: Vec<Option<DnsResponseStream>>, // index r-1
    pub wid: Vec<Option<u16>>,
    pub used_ids: Vec<u16>,
    pub id_reused: bool,
    ended: bool,
    woken: Arc<WakeFlag>,
    pub mux_polls: usize,
    pub events: Vec<Value>,
    pub ntag: u32,
}

pub const TIMEOUT_MS: u64 = 250;
pub const TICK_MS: u64 = 100;

impl MuxRun {
    pub fn new(case: &Value, n: usize, cap: usize, timeout_ms: u64) -> Self {
        let addr: SocketAddr = "192.0.2.53:53".parse().unwrap();
        let inb = Arc::new(Mutex::new(Inbound::default()));
        let (handle, out_rx) = BufDnsStreamHandle::new(addr);
        let mux = DnsMultiplexer::new(ScriptedStream { inb: inb.clone(), addr }, handle)
            .with_timeout(Duration::from_millis(timeout_ms))
            .with_max_active_requests(cap);
        let mut run = MuxRun {
            mux,
            out_rx,
            inb,
            rx: (0..n).map(|_| None).collect(),
            wid: vec![None; n],
            used_ids: Vec::new(),
            id_reused: false,
            ended: false,
            woken: Arc::new(WakeFlag(AtomicBool::new(false))),
            mux_polls: 0,
            events: vec![json!({"ev": "reset", "case": case, "mode": "mux", "n": n})],
            ntag: 0,
        };
        // the background task polls the stream once when it is spawned
        run.run_mux(true);
        run
    }

    /// runs the multiplexer's task: polls it while it has been woken (`force`: at least once)
    fn run_mux(&mut self, force: bool) {
        let waker = Waker::from(self.woken.clone());
        let mut cx = Context::from_waker(&waker);
        let mut first = force;
        let mut guard = 0;
        while !self.ended && (first || self.woken.0.swap(false, Ordering::SeqCst)) && guard < 10_000 {
            first = false;
            guard += 1;
            self.woken.0.store(false, Ordering::SeqCst);
            self.mux_polls += 1;
            match Pin::new(&mut self.mux).poll_next(&mut cx) {
                Poll::Pending => {}
                // "ready to send": a task would poll again straight away
                Poll::Ready(Some(_)) => self.woken.0.store(true, Ordering::SeqCst),
                Poll::Ready(None) => self.ended = true,
            }
        }
    }

    /// runs the multiplexer's task if it was woken, then polls every live receiver until pending
    fn observe(&mut self) -> (Value, bool) {
        self.run_mux(false);
        let waker = noop_waker();
        let mut cx = Context::from_waker(&waker);
        let mut obs = Vec::new();
        for (i, slot) in self.rx.iter_mut().enumerate() {
            let mut dead = false;
            if let Some(rs) = slot.as_mut() {
                loop {
                    match rs.poll_next_unpin(&mut cx) {
                        Poll::Pending => break,
                        Poll::Ready(Some(Ok(resp))) => {
                            obs.push(json!({"r": i + 1, "k": "ok", "tag": wire::tag_of_response(&resp), "rid": resp.id}));
                        }
                        Poll::Ready(Some(Err(e))) => {
                            obs.push(json!({"r": i + 1, "k": "err", "tag": 0, "rid": 0, "why": e.to_string()}));
                            dead = true;
                            break;
                        }
                        Poll::Ready(None) => {
                            obs.push(json!({"r": i + 1, "k": "end", "tag": 0, "rid": 0, "why": ""}));
                            dead = true;
                            break;
                        }
                    }
                }
            }
            if dead {
                *slot = None;
            }
        }
        (json!(obs), self.ended)
    }

    fn finish_event(&mut self, mut ev: Value, poll: bool) -> Value {
        let o = ev.as_object_mut().unwrap();
        if poll {
            let (obs, ended) = self.observe();
            o.insert("p".into(), json!(true));
            o.insert("obs".into(), obs.clone());
            o.insert("ended".into(), json!(ended));
            self.events.push(ev);
            obs
        } else {
            o.insert("p".into(), json!(false));
            o.insert("obs".into(), json!([]));
            self.events.push(ev);
            json!([])
        }
    }

    pub fn send(&mut self, r: usize, poll: bool) -> Value {
        let mut opts = DnsRequestOptions::default();
        opts.use_edns = r % 2 == 0;
        let name = Name::from_ascii(format!("host{r}.example.test.")).unwrap();
        let req = DnsRequest::from_query(Query::new(name, RecordType::A), opts);
        // DnsExchangeBackground polls the stream, hands the request over, and polls again
        self.run_mux(true);
        if self.ended {
            // the connection turned out to have ended: the request cannot be handed over
            // (send_message documents a panic); only what the poll did is recorded
            return self.finish_event(json!({"ev": "poll"}), poll);
        }
        let rs = self.mux.send_message(req);
        self.rx[r - 1] = Some(rs);
        let waker = noop_waker();
        let mut cx = Context::from_waker(&waker);
        let mut on_wire = Vec::new();
        while let Poll::Ready(Some(m)) = self.out_rx.poll_next_unpin(&mut cx) {
            on_wire.push(m.into_parts().0);
        }
        let id = on_wire.first().and_then(|b| wire::parse(b)).map(|p| p.id);
        if let Some(id) = id {
            if self.used_ids.contains(&id) {
                self.id_reused = true;
            }
            self.used_ids.push(id);
        }
        self.wid[r - 1] = id;
        self.run_mux(true);
        self.finish_event(json!({"ev": "send", "r": r, "w": id.is_some(), "id": id.unwrap_or(0), "msgs": on_wire.len()}), poll)
    }

    pub fn deliver(&mut self, id: u16, poll: bool) -> Value {
        self.ntag += 1;
        let tag = self.ntag;
        let q = Question { name: vec![b"host".to_vec(), b"example".to_vec(), b"test".to_vec()], qtype: 1, qclass: 1 };
        let bytes = wire::build_response(id, std::slice::from_ref(&q), &q.name, tag);
        self.inb.lock().unwrap().push(In::Msg(bytes));
        self.finish_event(json!({"ev": "deliver", "id": id, "tag": tag}), poll)
    }

    pub fn garbage(&mut self, variant: u8, poll: bool) -> Value {
        self.ntag += 1;
        let bytes = match variant % 3 {
            0 => vec![0x12, 0x34, 0x81],
            1 => vec![0xab, 0xcd, 0x81, 0x80, 0, 1, 0, 0, 0, 0, 0, 0, 9, b'x'],
            _ => vec![],
        };
        self.inb.lock().unwrap().push(In::Msg(bytes));
        self.finish_event(json!({"ev": "garbage", "tag": self.ntag}), poll)
    }

    pub fn cancel(&mut self, r: usize, poll: bool) -> Value {
        self.rx[r - 1] = None;
        self.finish_event(json!({"ev": "cancel", "r": r}), poll)
    }

    pub async fn advance(&mut self, ms: u64, poll: bool) -> Value {
        tokio::time::advance(Duration::from_millis(ms)).await;
        self.finish_event(json!({"ev": "advance", "ms": ms}), poll)
    }

    pub fn close(&mut self, how: &str, poll: bool) -> Value {
        self.inb.lock().unwrap().push(if how == "eof" { In::Eof } else { In::Err });
        self.finish_event(json!({"ev": "close", "how": how}), poll)
    }

    /// the multiplexer's stream has ended (nothing can be sent or delivered any more)
    pub fn ended(&self) -> bool {
        self.ended
    }

    pub fn is_live(&self, r: usize) -> bool {
        self.rx[r - 1].is_some()
    }

    /// an ID no request of this case has had
    pub fn unused_id(&self, rng: &mut StdRng) -> u16 {
        loop {
            let id: u16 = rng.random();
            if !self.used_ids.contains(&id) {
                return id;
            }
        }
    }
}

fn project(obs: &Value) -> Value {
    // the reference behaviour of Gen_Mux does not distinguish an error item from the end of the
    // response stream: both are "fail"
    json!(obs
        .as_array()
        .unwrap()
        .iter()
        .map(|o| json!({"r": o["r"], "k": if o["k"] == "ok" { "ok" } else { "fail" }, "tag": o["tag"]}))
        .collect::<Vec<_>>())
}

// ---------------------------------------------------------------------------------------------
// replay: TLC-generated behaviours (Gen_Mux)

pub async fn replay_one(ln: usize, c: &Value, trace: &mut dyn io::Write, out: &mut dyn io::Write) {
    let n = c["n"].as_u64().unwrap() as usize;
    let cap = c["cap"].as_u64().unwrap() as usize;
    let log = c["log"].as_array().unwrap();
    let exp = c["exp"].as_array().unwrap();
    let id = json!(format!("m{ln}"));
    let mut attempt = 0;
    loop {
        attempt += 1;
        let mut rng = StdRng::seed_from_u64(ln as u64 * 31 + attempt);
        let mut run = MuxRun::new(&id, n, cap, TIMEOUT_MS);
        let mut observed = Vec::new();
        let mut adapter: Vec<String> = Vec::new();
        for step in log {
            let op = step["op"].as_str().unwrap();
            let r = step["r"].as_u64().unwrap() as usize;
            if run.ended() {
                // the real multiplexer has ended the connection earlier than the reference
                // behaviour: the rest of the schedule cannot be realised
                observed.push(json!([]));
                continue;
            }
            let obs = match op {
                "send" => run.send(r, true),
                "deliver" => match run.wid[r - 1] {
                    Some(w) => run.deliver(w, true),
                    None => {
                        // the reference behaviour says r went on the wire, the real one refused it:
                        // there is no ID to deliver to; the step is realised as an unknown ID
                        adapter.push(format!("deliver to request {r} which has no wire id"));
                        let u = run.unused_id(&mut rng);
                        run.deliver(u, true)
                    }
                },
                "unknown" => {
                    let u = run.unused_id(&mut rng);
                    run.deliver(u, true)
                }
                "garbage" => run.garbage(ln as u8, true),
                // a receiver that has already ended cannot be cancelled any more (only possible when
                // the run has left the reference behaviour): the step is a no-op
                "cancel" if !run.is_live(r) => json!([]),
                "cancel" => run.cancel(r, true),
                "tick" => run.advance(TICK_MS, true).await,
                "close" => run.close(step["how"].as_str().unwrap(), true),
                // a response and the end of the stream readable in the same poll
                "deliverclose" => {
                    match run.wid[r - 1] {
                        Some(w) => run.deliver(w, false),
                        None => {
                            adapter.push(format!("deliver to request {r} which has no wire id"));
                            let u = run.unused_id(&mut rng);
                            run.deliver(u, false)
                        }
                    };
                    run.close(step["how"].as_str().unwrap(), true)
                }
                _ => panic!("unknown op {op}"),
            };
            observed.push(project(&obs));
        }
        if run.id_reused && attempt < 5 {
            continue; // 2^-16: the multiplexer picked an ID a finished request of this case had
        }
        let ok = observed.len() == exp.len() && observed.iter().zip(exp.iter()).all(|(a, b)| a == b);
        let step = observed.iter().zip(exp.iter()).position(|(a, b)| a != b);
        let class = match step {
            None => String::new(),
            Some(k) => format!("differs-at:{}", log[k]["op"].as_str().unwrap()),
        };
        for e in &run.events {
            writeln!(trace, "{e}").unwrap();
        }
        let nontrivial = log.iter().filter(|s| matches!(s["op"].as_str(), Some("deliver" | "deliverclose" | "unknown" | "garbage"))).count() >= 1
            && log.iter().filter(|s| s["op"] == "send").count() >= 2;
        writeln!(
            out,
            "{}",
            json!({"case": format!("m{ln}"), "ok": ok, "expected": exp, "observed": observed, "class": class,
                   "step": step, "adapter": adapter, "nontrivial": nontrivial, "input": {"n": n, "cap": cap, "log": log}})
        )
        .unwrap();
        return;
    }
}

// ---------------------------------------------------------------------------------------------
// record: seeded random interleavings with many concurrent requests

pub async fn record(seed: u64, n_cases: usize, max_reqs: usize, steps: usize, trace: &mut dyn io::Write, out: &mut dyn io::Write) {
    let mut rng = StdRng::seed_from_u64(seed ^ 0x16_00);
    for case in 0..n_cases {
        let id = format!("mr{seed}-{case}");
        let n = rng.random_range(2..=max_reqs);
        let cap = if rng.random_bool(0.3) { rng.random_range(1..=n) } else { 32 };
        let timeout_ms = [250u64, 450, 5000][rng.random_range(0..3)];
        let mut run = MuxRun::new(&json!(id), n, cap, timeout_ms);
        let mut sent = 0usize;
        let mut stale: Vec<u16> = Vec::new(); // IDs of requests that are gone (cancelled / failed)
        let mut gone: HashSet<usize> = HashSet::new();
        let n_steps = rng.random_range(steps / 2..=steps);
        let burst_start = rng.random_bool(0.7);
        let mut delivered = 0usize;
        let mut closed = false;
        for step in 0..n_steps {
            // a step is a batch of 1..4 actions followed by one poll
            let batch = if rng.random_bool(0.6) { 1 } else { rng.random_range(2..=4) };
            for b in 0..batch {
                if run.ended() {
                    break;
                }
                let poll = b + 1 == batch;
                // live = sent, receiver still held
                let live: Vec<usize> = (1..=sent).filter(|r| run.is_live(*r)).collect();
                for r in 1..=sent {
                    if !run.is_live(r) && gone.insert(r) {
                        if let Some(w) = run.wid[r - 1] {
                            stale.push(w);
                        }
                    }
                }
                let want_send = sent < n && (rng.random_bool(0.25) || (burst_start && step < n) || live.is_empty());
                if want_send {
                    sent += 1;
                    run.send(sent, poll);
                    continue;
                }
                match rng.random_range(0..100) {
                    0..=44 if !live.is_empty() => {
                        // a response for a live request (first or duplicate)
                        let r = live[rng.random_range(0..live.len())];
                        match run.wid[r - 1] {
                            Some(w) => {
                                run.deliver(w, poll);
                                delivered += 1;
                            }
                            None => {
                                run.garbage(step as u8, poll);
                            }
                        }
                    }
                    45..=56 if !stale.is_empty() => {
                        let w = stale[rng.random_range(0..stale.len())];
                        run.deliver(w, poll);
                    }
                    57..=66 => {
                        // an ID near a live one, or a random unused one
                        let u = run.unused_id(&mut rng);
                        run.deliver(u, poll);
                    }
                    67..=72 => {
                        run.garbage(rng.random(), poll);
                    }
                    73..=84 if !live.is_empty() => {
                        let r = live[rng.random_range(0..live.len())];
                        run.cancel(r, poll);
                    }
                    _ => {
                        let ms = [20u64, 60, 100, 130, 260][rng.random_range(0..5)];
                        run.advance(ms, poll).await;
                    }
                }
            }
        }
        if rng.random_bool(0.7) && !run.ended() {
            let how = if rng.random_bool(0.5) { "eof" } else { "err" };
            // half of the time the last answers and the end of the stream are readable together
            if rng.random_bool(0.5) {
                let live: Vec<usize> = (1..=sent).filter(|r| run.is_live(*r)).collect();
                for _ in 0..rng.random_range(1..=3usize) {
                    if live.is_empty() {
                        let u = run.unused_id(&mut rng);
                        run.deliver(u, false);
                    } else if let Some(w) = run.wid[live[rng.random_range(0..live.len())] - 1] {
                        run.deliver(w, false);
                        delivered += 1;
                    }
                }
            }
            run.close(how, true);
            closed = true;
        }
        for e in &run.events {
            writeln!(trace, "{e}").unwrap();
        }
        writeln!(
            out,
            "{}",
            json!({"case": id, "events": run.events.len(), "n": n, "cap": cap, "sent": sent, "delivered": delivered,
                   "closed": closed, "id_reused": run.id_reused})
        )
        .unwrap();
    }
}

// ---------------------------------------------------------------------------------------------
// special scenarios of the record direction
//  ms: very many requests in flight at once, so that a missing freshness check on the wire ID
//      becomes visible (birthday bound: 400 random 16-bit IDs collide with probability ~0.7)
//  mb: a burst of responses that all carry the ID of one pending request (a response stream
//      such as AXFR, or a duplicated response) arriving back to back
//  mq: more than a hundred arrivals (unknown IDs, undecodable, duplicates) followed by the
//      responses of the pending requests, all readable at once

fn emit(run: &MuxRun, id: &str, kind: &str, n: usize, delivered: usize, trace: &mut dyn io::Write, out: &mut dyn io::Write) {
    for e in &run.events {
        writeln!(trace, "{e}").unwrap();
    }
    writeln!(
        out,
        "{}",
        json!({"case": id, "scenario": kind, "events": run.events.len(), "n": n, "sent": n, "delivered": delivered,
               "closed": true, "id_reused": run.id_reused, "mux_polls": run.mux_polls})
    )
    .unwrap();
}

pub async fn stress(seed: u64, n_cases: usize, n_reqs: usize, trace: &mut dyn io::Write, out: &mut dyn io::Write) {
    let mut rng = StdRng::seed_from_u64(seed ^ 0x16_55);
    for case in 0..n_cases {
        let id = format!("ms{seed}-{case}");
        let mut run = MuxRun::new(&json!(id), n_reqs, 65536, 5000);
        for r in 1..=n_reqs {
            run.send(r, r % 97 == 0 || r == n_reqs);
        }
        let mut delivered = 0;
        for k in 0..40 {
            let r = rng.random_range(1..=n_reqs);
            if run.is_live(r) {
                if let Some(w) = run.wid[r - 1] {
                    run.deliver(w, k % 4 == 3);
                    delivered += 1;
                }
            }
        }
        let u = run.unused_id(&mut rng);
        run.deliver(u, true);
        run.close(if case % 2 == 0 { "eof" } else { "err" }, true);
        emit(&run, &id, "many-in-flight", n_reqs, delivered, trace, out);
    }
}

pub async fn bursts(seed: u64, n_cases: usize, trace: &mut dyn io::Write, out: &mut dyn io::Write) {
    let mut rng = StdRng::seed_from_u64(seed ^ 0x16_bb);
    for case in 0..n_cases {
        // ---- mb: k responses with the ID of one pending request in one batch
        let id = format!("mb{seed}-{case}");
        let n = 3;
        let mut run = MuxRun::new(&json!(id), n, 32, 5000);
        for r in 1..=n {
            run.send(r, true);
        }
        let target = rng.random_range(1..=n);
        let k = [2usize, 5, 9, 10, 12, 20, 40][case % 7];
        let w = run.wid[target - 1].expect("wire id");
        for i in 0..k {
            run.deliver(w, i + 1 == k);
        }
        let other = target % n + 1;
        let w2 = run.wid[other - 1].expect("wire id");
        run.deliver(w2, true);
        run.close("eof", true);
        emit(&run, &id, &format!("same-id-burst-{k}"), n, k + 1, trace, out);

        // ---- mq: f arrivals that are for nobody, then one response per pending request, one batch
        let id = format!("mq{seed}-{case}");
        let n = 4;
        let mut run = MuxRun::new(&json!(id), n, 32, 5000);
        for r in 1..=n {
            run.send(r, true);
        }
        let f = [20usize, 60, 95, 96, 97, 100, 120, 150][case % 8];
        for i in 0..f {
            match i % 3 {
                0 => {
                    let u = run.unused_id(&mut rng);
                    run.deliver(u, false);
                }
                1 => {
                    run.garbage(i as u8, false);
                }
                _ => {
                    let u = run.unused_id(&mut rng);
                    run.deliver(u, false);
                }
            }
        }
        for r in 1..=n {
            if run.ended() {
                break;
            }
            let w = run.wid[r - 1].expect("wire id");
            run.deliver(w, r == n);
        }
        if !run.ended() {
            run.advance(100, true).await;
            run.close("err", true);
        }
        emit(&run, &id, &format!("flood-{f}"), n, f + n, trace, out);
    }
}

// ---------------------------------------------------------------------------------------------
// probes (observation only, no verdict)

/// a burst of responses for one request whose receiver is not polled in between
pub fn probe_backlog(burst: usize) -> Value {
    let mut run = MuxRun::new(&json!("probe"), 1, 32, 5000);
    run.send(1, true);
    let w = run.wid[0].expect("wire id");
    for _ in 1..burst {
        run.deliver(w, false);
    }
    let obs = run.deliver(w, true);
    let got = obs.as_array().unwrap().iter().filter(|o| o["k"] == "ok").count();
    json!({"probe": "same-id-burst", "burst": burst, "received": got})
}

/// The same flood as scenario mq, but under tokio's own executor and through the public
/// DnsExchange API (background task spawned, real wakers, paused clock): `n` requests in flight,
/// `n` responses readable at once.  Reports how many requests were answered right away, and how
/// they ended after the request timeout.
pub async fn probe_flood_real(n: usize) -> Value {
    use hickory_net::runtime::TokioRuntimeProvider;
    use hickory_net::xfer::{DnsExchange, DnsHandle};
    let addr: SocketAddr = "192.0.2.53:53".parse().unwrap();
    let inb = Arc::new(Mutex::new(Inbound::default()));
    let (handle, mut out_rx) = BufDnsStreamHandle::new(addr);
    let mux = DnsMultiplexer::new(ScriptedStream { inb: inb.clone(), addr }, handle)
        .with_timeout(Duration::from_millis(5000))
        .with_max_active_requests(n + 10);
    let (ex, bg) = DnsExchange::<TokioRuntimeProvider>::from_stream(mux);
    let task = tokio::spawn(bg);
    let mut rxs = Vec::new();
    let mut ids = Vec::new();
    for r in 0..n {
        let name = Name::from_ascii(format!("host{r}.example.test.")).unwrap();
        let mut opts = DnsRequestOptions::default();
        opts.use_edns = false;
        rxs.push(ex.send(DnsRequest::from_query(Query::new(name, RecordType::A), opts)));
        // BufDnsStreamHandle holds 32 messages: drain as we go
        tokio::task::yield_now().await;
        while let Some(Some(m)) = futures_util::FutureExt::now_or_never(out_rx.next()) {
            ids.push(wire::parse(m.bytes()).map(|p| p.id).unwrap_or(0));
        }
    }
    tokio::time::sleep(Duration::from_millis(10)).await;
    while let Some(Some(m)) = futures_util::FutureExt::now_or_never(out_rx.next()) {
        ids.push(wire::parse(m.bytes()).map(|p| p.id).unwrap_or(0));
    }
    let q = Question { name: vec![b"host".to_vec()], qtype: 1, qclass: 1 };
    {
        let mut i = inb.lock().unwrap();
        for (k, id) in ids.iter().enumerate() {
            i.push(In::Msg(wire::build_response(*id, std::slice::from_ref(&q), &q.name, k as u32 + 1)));
        }
    }
    tokio::time::sleep(Duration::from_millis(1000)).await;
    let mut answered_1s = 0;
    let mut state: Vec<&str> = vec!["pending"; rxs.len()];
    for (k, rx) in rxs.iter_mut().enumerate() {
        if let Some(item) = futures_util::FutureExt::now_or_never(rx.next()) {
            match item {
                Some(Ok(_)) => {
                    answered_1s += 1;
                    state[k] = "answered";
                }
                Some(Err(_)) => state[k] = "error",
                None => state[k] = "ended",
            }
        }
    }
    tokio::time::sleep(Duration::from_millis(6000)).await;
    let mut answered_late = 0;
    let mut lost = 0;
    for (k, rx) in rxs.iter_mut().enumerate() {
        if state[k] != "pending" {
            continue;
        }
        match futures_util::FutureExt::now_or_never(rx.next()) {
            Some(Some(Ok(_))) => answered_late += 1,
            _ => lost += 1,
        }
    }
    task.abort();
    json!({"probe": "flood-real-executor", "requests_in_flight": n, "on_wire": ids.len(), "responses_arrived_at_once": ids.len(),
           "answered_within_1s": answered_1s, "answered_only_after_timeout_wakeup": answered_late,
           "never_answered_although_response_arrived": lost})
}

/// The same-ID burst under tokio's own executor through the public DnsExchange API: one request,
/// `burst` responses with its ID readable at once, a consumer task that takes every item as soon
/// as it is woken.
pub async fn probe_burst_real(burst: usize) -> Value {
    use hickory_net::runtime::TokioRuntimeProvider;
    use hickory_net::xfer::{DnsExchange, DnsHandle};
    let addr: SocketAddr = "192.0.2.53:53".parse().unwrap();
    let inb = Arc::new(Mutex::new(Inbound::default()));
    let (handle, mut out_rx) = BufDnsStreamHandle::new(addr);
    let mux = DnsMultiplexer::new(ScriptedStream { inb: inb.clone(), addr }, handle).with_timeout(Duration::from_millis(5000));
    let (ex, bg) = DnsExchange::<TokioRuntimeProvider>::from_stream(mux);
    let task = tokio::spawn(bg);
    let mut opts = DnsRequestOptions::default();
    opts.use_edns = false;
    let mut rx = ex.send(DnsRequest::from_query(Query::new(Name::from_ascii("zone.example.test.").unwrap(), RecordType::AXFR), opts));
    let m = out_rx.next().await.expect("request on the wire");
    let id = wire::parse(m.bytes()).map(|p| p.id).unwrap_or(0);
    let consumer = tokio::spawn(async move {
        let mut tags = Vec::new();
        while let Some(Ok(resp)) = rx.next().await {
            tags.push(wire::tag_of_response(&resp));
        }
        tags
    });
    tokio::task::yield_now().await;
    let q = Question { name: vec![b"zone".to_vec()], qtype: 252, qclass: 1 };
    {
        let mut i = inb.lock().unwrap();
        for k in 0..burst {
            i.push(In::Msg(wire::build_response(id, std::slice::from_ref(&q), &q.name, k as u32 + 1)));
        }
    }
    // the request times out after 5 s, which ends the consumer
    let tags = consumer.await.unwrap_or_default();
    task.abort();
    json!({"probe": "same-id-burst-real-executor", "responses_arrived_at_once": burst, "received_by_consumer": tags.len(),
           "received_tags": tags})
}
