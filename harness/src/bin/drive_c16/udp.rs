//! Datagram half of C16: the real `UdpClientStream` over a scripted `RuntimeProvider`.
//!
//! The scripted socket (`ScriptedUdp`) records what `send_to` was given (the request bytes with
//! the random ID / letter case, and the random local port it was bound to), derives the planned
//! datagrams from the *actual* request at that moment, hands them out from `recv_from` in the
//! planned order at the planned (virtual) time, and logs every datagram it hands out
//! ("examined").  No expected values are computed here.
use std::collections::VecDeque;
use std::future::Future;
use std::io;
use std::net::{IpAddr, Ipv4Addr, Ipv6Addr, SocketAddr};
use std::pin::Pin;
use std::sync::{Arc, Mutex};
use std::task::{Context, Poll};
use std::time::Duration;

use async_trait::async_trait;
use futures_io::{AsyncRead, AsyncWrite};
use futures_util::StreamExt;
use hickory_net::runtime::{DnsTcpStream, DnsUdpSocket, RuntimeProvider, TokioHandle, TokioTime};
use hickory_net::udp::UdpClientStream;
use hickory_net::xfer::{DnsHandle, DnsRequestSender};
use hickory_net::NetError;
use hickory_proto::op::{DnsRequest, DnsRequestOptions, Message, Query};
use hickory_proto::rr::{Name, RecordType};
use rand::rngs::StdRng;
use rand::{RngExt, SeedableRng};
use serde_json::{json, Value};

use crate::wire::{self, Parsed, Question};

// ---------------------------------------------------------------------------------------------
// forging

#[derive(Clone, Debug, PartialEq)]
pub enum QMut {
    Echo,        // the asked questions, as asked
    OtherName,   // one question with a name that was not asked
    OtherType,   // first asked name, another type
    OtherClass,  // first asked name and type, another class
    FlipFirst,   // asked questions, all letters of the first name case-flipped
    FlipSome,    // asked questions, some letters of some name case-flipped
    Extra,       // asked questions plus one that was not asked
    ExtraFront,  // one that was not asked, then the asked ones
    Empty,       // no question section
    FirstOnly,   // only the first asked question
    Reversed,    // the asked questions in reverse order
}

#[derive(Clone, Debug)]
pub struct Forge {
    pub bad_ip: bool,
    pub bad_port: bool,
    pub bad_id: bool,
    pub q: QMut,
    pub garbage: Option<u8>,
}

impl Forge {
    pub fn genuine() -> Self {
        Forge { bad_ip: false, bad_port: false, bad_id: false, q: QMut::Echo, garbage: None }
    }
    /// concretiser of the generator's kind names (UdpMatchOps!Kinds)
    pub fn of_kind(kind: &str) -> Option<Self> {
        let g = Self::genuine();
        Some(match kind {
            "genuine" => g,
            "srcIp" => Forge { bad_ip: true, ..g },
            "srcPort" => Forge { bad_port: true, ..g },
            "id" => Forge { bad_id: true, ..g },
            "qname" => Forge { q: QMut::OtherName, ..g },
            "qtype" => Forge { q: QMut::OtherType, ..g },
            "qclass" => Forge { q: QMut::OtherClass, ..g },
            "qcase" => Forge { q: QMut::FlipFirst, ..g },
            "extraQ" => Forge { q: QMut::Extra, ..g },
            "noQ" => Forge { q: QMut::Empty, ..g },
            "subsetQ" => Forge { q: QMut::FirstOnly, ..g },
            "garbage" => Forge { garbage: Some(1), ..g },
            "garbageOff" => Forge { bad_ip: true, garbage: Some(1), ..g },
            "garbagePort" => Forge { bad_port: true, garbage: Some(1), ..g },
            "short" => Forge { garbage: Some(0), ..g },
            "shortOff" => Forge { bad_ip: true, garbage: Some(0), ..g },
            "shortPort" => Forge { bad_port: true, garbage: Some(0), ..g },
            "queryCopy" => Forge { garbage: Some(2), ..g },
            "queryOff" => Forge { bad_ip: true, garbage: Some(2), ..g },
            "queryPort" => Forge { bad_port: true, garbage: Some(2), ..g },
            _ => return None,
        })
    }
}

pub struct Planned {
    pub at_ms: u64, // after the transmission it is aimed at left the socket
    pub forge: Forge,
    pub tag: u32,
    pub kind: String,
    pub claim: Option<Value>,
}

struct Concrete {
    due: tokio::time::Instant,
    bytes: Vec<u8>,
    src: SocketAddr,
    fields: Value,
    tag: u32,
    kind: String,
    claim: Option<Value>,
}

fn ip_json(ip: IpAddr) -> Value {
    match ip {
        IpAddr::V4(a) => json!(a.octets().to_vec()),
        IpAddr::V6(a) => json!(a.octets().to_vec()),
    }
}

fn other_ip(ip: IpAddr) -> IpAddr {
    match ip {
        IpAddr::V4(a) => {
            let mut o = a.octets();
            o[3] = o[3].wrapping_add(1);
            IpAddr::V4(Ipv4Addr::from(o))
        }
        IpAddr::V6(a) => {
            let mut o = a.octets();
            o[15] = o[15].wrapping_add(1);
            IpAddr::V6(Ipv6Addr::from(o))
        }
    }
}

fn unasked_name() -> Vec<Vec<u8>> {
    vec![b"evil".to_vec(), b"attacker".to_vec(), b"invalid".to_vec()]
}

fn concretise(p: &Planned, req: &Parsed, raw: &[u8], server: SocketAddr, due: tokio::time::Instant, rng: &mut StdRng) -> Concrete {
    let f = &p.forge;
    let src = SocketAddr::new(
        if f.bad_ip { other_ip(server.ip()) } else { server.ip() },
        if f.bad_port { server.port().wrapping_add(1).max(1) } else { server.port() },
    );
    let owner = req.qs.first().map(|q| q.name.clone()).unwrap_or_default();
    if let Some(g) = f.garbage {
        // three shapes of "not a DNS response"
        let bytes = match g % 3 {
            // shorter than a DNS header
            0 => vec![0xde, 0xad, 0xbe, 0xef, 0x01],
            // the request itself, reflected: a well-formed DNS message with QR = 0
            2 => raw.to_vec(),
            // a header announcing one question, cut inside the question name
            _ => {
                let full = wire::build_response(req.id, &req.qs, &owner, p.tag);
                let mut b = full[..12].to_vec();
                b[4] = 0;
                b[5] = 1;
                b.extend_from_slice(&[5, b'a', b'b']);
                b
            }
        };
        let fields = json!({"ip": ip_json(src.ip()), "port": src.port(), "dec": false, "id": 0, "qs": []});
        return Concrete { due, bytes, src, fields, tag: p.tag, kind: p.kind.clone(), claim: p.claim.clone() };
    }
    let id = if f.bad_id { req.id ^ (1 + rng.random_range(0..0xfffeu16)) } else { req.id };
    let first = req.qs.first().cloned().unwrap_or(Question { name: vec![b"x".to_vec()], qtype: 1, qclass: 1 });
    let bad = Question { name: unasked_name(), qtype: first.qtype, qclass: first.qclass };
    let qs: Vec<Question> = match f.q {
        QMut::Echo => req.qs.clone(),
        QMut::OtherName => vec![bad],
        QMut::OtherType => vec![Question { qtype: if first.qtype == 28 { 1 } else { 28 }, ..first }],
        QMut::OtherClass => vec![Question { qclass: if first.qclass == 3 { 1 } else { 3 }, ..first }],
        QMut::FlipFirst => {
            let mut v = req.qs.clone();
            if let Some(q) = v.first_mut() {
                q.name = wire::flip_case(&q.name, true, &mut || true);
            }
            v
        }
        QMut::FlipSome => {
            let mut v = req.qs.clone();
            if !v.is_empty() {
                let k = rng.random_range(0..v.len());
                v[k].name = wire::flip_case(&v[k].name, false, &mut || rng.random_bool(0.3));
            }
            v
        }
        QMut::Extra => {
            let mut v = req.qs.clone();
            v.push(bad);
            v
        }
        QMut::ExtraFront => {
            let mut v = vec![bad];
            v.extend(req.qs.iter().cloned());
            v
        }
        QMut::Empty => vec![],
        QMut::FirstOnly => req.qs.iter().take(1).cloned().collect(),
        QMut::Reversed => req.qs.iter().rev().cloned().collect(),
    };
    let bytes = wire::build_response(id, &qs, &owner, p.tag);
    let fields = json!({"ip": ip_json(src.ip()), "port": src.port(), "dec": true, "id": id,
                        "qs": qs.iter().map(Question::to_json).collect::<Vec<_>>()});
    Concrete { due, bytes, src, fields, tag: p.tag, kind: p.kind.clone(), claim: p.claim.clone() }
}

// ---------------------------------------------------------------------------------------------
// scripted provider / socket

struct Shared {
    server: SocketAddr,
    plan: Vec<Vec<Planned>>,
    queues: Vec<Option<VecDeque<Concrete>>>,
    examined: Vec<Vec<(u32, String)>>,
    binds: usize,
    events: Vec<Value>,
    rng: StdRng,
    adapter_errors: Vec<String>,
}

#[derive(Clone)]
pub struct SimProvider {
    sh: Arc<Mutex<Shared>>,
    handle: TokioHandle,
}

pub struct NoTcp;
impl AsyncRead for NoTcp {
    fn poll_read(self: Pin<&mut Self>, _cx: &mut Context<'_>, _buf: &mut [u8]) -> Poll<io::Result<usize>> {
        Poll::Ready(Err(io::Error::other("no tcp in this harness")))
    }
}
impl AsyncWrite for NoTcp {
    fn poll_write(self: Pin<&mut Self>, _cx: &mut Context<'_>, _buf: &[u8]) -> Poll<io::Result<usize>> {
        Poll::Ready(Err(io::Error::other("no tcp in this harness")))
    }
    fn poll_flush(self: Pin<&mut Self>, _cx: &mut Context<'_>) -> Poll<io::Result<()>> {
        Poll::Ready(Ok(()))
    }
    fn poll_close(self: Pin<&mut Self>, _cx: &mut Context<'_>) -> Poll<io::Result<()>> {
        Poll::Ready(Ok(()))
    }
}
impl DnsTcpStream for NoTcp {
    type Time = TokioTime;
}

impl RuntimeProvider for SimProvider {
    type Handle = TokioHandle;
    type Timer = TokioTime;
    type Udp = ScriptedUdp;
    type Tcp = NoTcp;

    fn create_handle(&self) -> Self::Handle {
        self.handle.clone()
    }

    fn connect_tcp(
        &self,
        _server_addr: SocketAddr,
        _bind_addr: Option<SocketAddr>,
        _timeout: Option<Duration>,
    ) -> Pin<Box<dyn Send + Future<Output = Result<Self::Tcp, io::Error>>>> {
        Box::pin(async { Err(io::Error::other("no tcp in this harness")) })
    }

    fn bind_udp(
        &self,
        local_addr: SocketAddr,
        _server_addr: SocketAddr,
    ) -> Pin<Box<dyn Send + Future<Output = Result<Self::Udp, io::Error>>>> {
        let sh = self.sh.clone();
        Box::pin(async move {
            let t = {
                let mut s = sh.lock().unwrap();
                let t = s.binds;
                s.binds += 1;
                s.queues.push(None);
                s.examined.push(Vec::new());
                t
            };
            Ok(ScriptedUdp { sh, t, local: local_addr, sleep: Mutex::new(None) })
        })
    }
}

pub struct ScriptedUdp {
    sh: Arc<Mutex<Shared>>,
    t: usize,
    local: SocketAddr,
    sleep: Mutex<Option<Pin<Box<tokio::time::Sleep>>>>,
}

#[async_trait]
impl DnsUdpSocket for ScriptedUdp {
    type Time = TokioTime;

    fn poll_recv_from(&self, cx: &mut Context<'_>, buf: &mut [u8]) -> Poll<io::Result<(usize, SocketAddr)>> {
        let mut s = self.sh.lock().unwrap();
        loop {
            let now = tokio::time::Instant::now();
            let due = match s.queues[self.t].as_ref().and_then(|q| q.front()) {
                None => return Poll::Pending, // nothing (more) arrives on this socket
                Some(c) => c.due,
            };
            if due <= now {
                let c = s.queues[self.t].as_mut().unwrap().pop_front().unwrap();
                let n = c.bytes.len().min(buf.len());
                buf[..n].copy_from_slice(&c.bytes[..n]);
                let mut ev = c.fields.clone();
                let o = ev.as_object_mut().unwrap();
                o.insert("ev".into(), json!("dgram"));
                o.insert("t".into(), json!(self.t + 1));
                o.insert("tag".into(), json!(c.tag));
                o.insert("kind".into(), json!(c.kind));
                if let Some(cl) = &c.claim {
                    o.insert("claim".into(), cl.clone());
                }
                s.events.push(ev);
                s.examined[self.t].push((c.tag, c.kind.clone()));
                return Poll::Ready(Ok((n, c.src)));
            }
            let mut sl = self.sleep.lock().unwrap();
            *sl = Some(Box::pin(tokio::time::sleep_until(due)));
            if sl.as_mut().unwrap().as_mut().poll(cx).is_pending() {
                return Poll::Pending;
            }
        }
    }

    fn poll_send_to(&self, _cx: &mut Context<'_>, buf: &[u8], target: SocketAddr) -> Poll<io::Result<usize>> {
        let mut guard = self.sh.lock().unwrap();
        let s = &mut *guard;
        let now = tokio::time::Instant::now();
        let req = match wire::parse(buf) {
            Some(r) => r,
            None => {
                s.adapter_errors.push("request bytes not parseable by the harness".into());
                Parsed { id: 0, qs: vec![] }
            }
        };
        if s.queues[self.t].is_some() {
            s.adapter_errors.push("second send_to on one socket".into());
        }
        s.events.push(json!({"ev": "tx", "t": self.t + 1, "id": req.id,
            "qs": req.qs.iter().map(Question::to_json).collect::<Vec<_>>(),
            "to_ip": ip_json(target.ip()), "to_port": target.port(), "local": self.local.port()}));
        let planned = if self.t < s.plan.len() { std::mem::take(&mut s.plan[self.t]) } else { Vec::new() };
        let server = s.server;
        let mut q = VecDeque::new();
        for p in &planned {
            q.push_back(concretise(p, &req, buf, server, now + Duration::from_millis(p.at_ms), &mut s.rng));
        }
        s.queues[self.t] = Some(q);
        Poll::Ready(Ok(buf.len()))
    }
}

// ---------------------------------------------------------------------------------------------
// running one query

pub struct UdpCase {
    pub id: Value,
    pub cr: bool,
    pub names: Vec<(String, RecordType)>,
    pub server: SocketAddr,
    pub plan: Vec<Vec<Planned>>,
    pub max_tx: u8,
    pub timeout_ms: u64,
    pub retry_ms: u64,
    pub edns: bool,
    pub seed: u64,
    /// go through the public `DnsExchange` handle (background task spawned on the runtime)
    /// instead of calling `send_message` on the stream directly
    pub via_exchange: bool,
}

pub struct UdpOutcome {
    pub o: &'static str,
    pub tag: u32,
    pub err: String,
    pub examined: Vec<Vec<(u32, String)>>,
    pub events: Vec<Value>,
    pub adapter_errors: Vec<String>,
}

fn make_request(c: &UdpCase) -> DnsRequest {
    let mut opts = DnsRequestOptions::default();
    opts.case_randomization = c.cr;
    opts.use_edns = c.edns;
    if c.names.len() == 1 {
        let (n, t) = &c.names[0];
        DnsRequest::from_query(Query::new(Name::from_ascii(n).expect("name"), *t), opts)
    } else {
        let mut m = Message::query();
        for (n, t) in &c.names {
            let mut name = Name::from_ascii(n).expect("name");
            if c.cr {
                name.randomize_label_case();
            }
            m.add_query(Query::new(name, *t));
        }
        DnsRequest::new(m, opts)
    }
}

pub async fn run_case(c: UdpCase) -> UdpOutcome {
    let sh = Arc::new(Mutex::new(Shared {
        server: c.server,
        plan: Vec::new(),
        queues: Vec::new(),
        examined: Vec::new(),
        binds: 0,
        events: vec![json!({"ev": "reset", "case": c.id, "mode": "udp", "cr": c.cr,
                            "ip": ip_json(c.server.ip()), "port": c.server.port()})],
        rng: StdRng::seed_from_u64(c.seed),
        adapter_errors: Vec::new(),
    }));
    let req = make_request(&c);
    sh.lock().unwrap().plan = c.plan;
    let provider = SimProvider { sh: sh.clone(), handle: TokioHandle::default() };
    let builder = UdpClientStream::builder(c.server, provider)
        .with_timeout(Some(Duration::from_millis(c.timeout_ms)))
        .with_max_retries(c.max_tx)
        .with_retry_interval_floor(c.retry_ms);
    let item = if c.via_exchange {
        let exchange = builder.exchange();
        let mut rs = exchange.send(req);
        rs.next().await
    } else {
        let mut stream = builder.build();
        let mut rs = stream.send_message(req);
        rs.next().await
    };
    let (o, tag, err) = match item {
        Some(Ok(resp)) => ("accept", wire::tag_of_response(&resp), String::new()),
        Some(Err(NetError::Timeout)) => ("timeout", 0, String::new()),
        Some(Err(e)) => ("error", 0, e.to_string()),
        None => ("timeout", 0, String::new()),
    };
    let mut s = sh.lock().unwrap();
    let ex_counts: Vec<usize> = s.examined.iter().map(|v| v.len()).collect();
    s.events.push(json!({"ev": "done", "o": o, "tag": tag, "err": err, "ex": ex_counts}));
    UdpOutcome {
        o,
        tag,
        err,
        examined: s.examined.clone(),
        events: std::mem::take(&mut s.events),
        adapter_errors: std::mem::take(&mut s.adapter_errors),
    }
}

// ---------------------------------------------------------------------------------------------
// replay: TLC-generated schedules (Gen_UdpMatch)

pub const NAMES: [(&str, RecordType); 3] = [
    ("wWw.ExAmple-Host.tEst.", RecordType::A),
    ("Mail.example-hosT.test.", RecordType::AAAA),
    ("nS1.Example-host.Test.", RecordType::TXT),
];

pub async fn replay_one(ln: usize, c: &Value, trace: &mut dyn io::Write, out: &mut dyn io::Write) {
    let cr = c["cr"].as_bool().unwrap();
    let nq = c["nq"].as_u64().unwrap() as usize;
    let sched: Vec<String> = c["sched"].as_array().unwrap().iter().map(|k| k.as_str().unwrap().to_string()).collect();
    let views = c["views"].as_array().unwrap();
    let mut plan = Vec::new();
    for (i, k) in sched.iter().enumerate() {
        plan.push(Planned {
            at_ms: 0,
            forge: Forge::of_kind(k).unwrap_or_else(|| panic!("unknown kind {k}")),
            tag: (i + 1) as u32,
            kind: k.clone(),
            claim: Some(views[i].clone()),
        });
    }
    let server: SocketAddr = if ln % 5 == 4 { "[2001:db8::53]:53".parse().unwrap() } else { "192.0.2.53:53".parse().unwrap() };
    let case = UdpCase {
        id: json!(format!("u{ln}")),
        cr,
        names: NAMES.iter().take(nq).map(|(n, t)| (n.to_string(), *t)).collect(),
        server,
        plan: vec![plan],
        max_tx: 1,
        timeout_ms: 1000,
        retry_ms: 400,
        edns: ln % 2 == 0,
        seed: ln as u64,
        via_exchange: ln % 3 == 2,
    };
    let r = run_case(case).await;
    let ex = r.examined.first().map(|v| v.len()).unwrap_or(0);
    let pos = if r.o == "accept" {
        r.examined.first().and_then(|v| v.iter().position(|(t, _)| *t == r.tag)).map(|p| p + 1).unwrap_or(99)
    } else {
        0
    };
    let observed = json!({"o": r.o, "ex": ex, "pos": pos});
    let is_in = |set: &Value| {
        set.as_array().unwrap().iter().any(|a| a["o"] == observed["o"] && a["ex"] == observed["ex"] && a["pos"] == observed["pos"])
    };
    let ok = is_in(&c["allowed"]);
    let prompt = is_in(&c["prompt"]);
    let acc_kind = if r.o == "accept" && pos >= 1 && pos <= sched.len() { sched[pos - 1].clone() } else { String::new() };
    let class = if ok {
        String::new()
    } else if ex > 3 {
        "examined-more-than-three".to_string()
    } else if r.o == "accept" {
        format!("accepted:{}", if acc_kind.is_empty() { "unidentified" } else { &acc_kind })
    } else if r.o == "error" && ex >= 1 && ex <= sched.len() {
        // label only: the kind name of the last datagram examined before the query failed
        format!("failed-on:{}", sched[ex - 1])
    } else {
        format!("outcome:{}", r.o)
    };
    let forgeries_examined = r.examined.first().map(|v| v.iter().filter(|(_, k)| k != "genuine").count()).unwrap_or(0);
    for e in &r.events {
        writeln!(trace, "{e}").unwrap();
    }
    writeln!(
        out,
        "{}",
        json!({"case": format!("u{ln}"), "ok": ok, "prompt": prompt, "expected": c["allowed"], "observed": observed,
               "class": class, "kind": acc_kind, "err": r.err, "adapter": r.adapter_errors,
               "nontrivial": forgeries_examined >= 1, "gen": if ok { Value::Null } else { c.clone() },
               "input": {"cr": cr, "nq": nq, "sched": sched}})
    )
    .unwrap();
}

// ---------------------------------------------------------------------------------------------
// replay: TLC-generated schedules with one retransmission (Gen_UdpRetx)

pub const RETRY_MS: u64 = 400;

pub async fn replay_retx(ln: usize, c: &Value, trace: &mut dyn io::Write, out: &mut dyn io::Write) {
    let cr = c["cr"].as_bool().unwrap();
    let nq = c["nq"].as_u64().unwrap() as usize;
    let kinds = |f: &str| -> Vec<String> { c[f].as_array().unwrap().iter().map(|k| k.as_str().unwrap().to_string()).collect() };
    let (s1, s2, s1b) = (kinds("s1"), kinds("s2"), kinds("s1b"));
    let mut tag = 0u32;
    let mut mk = |ks: &[String], views: &Value, at_ms: u64| -> Vec<Planned> {
        ks.iter()
            .enumerate()
            .map(|(i, k)| {
                tag += 1;
                Planned { at_ms, forge: Forge::of_kind(k).unwrap_or_else(|| panic!("unknown kind {k}")), tag, kind: k.clone(),
                          claim: Some(views[i].clone()) }
            })
            .collect()
    };
    // socket 1: s1 at once, s1b after the retransmission; socket 2: s2 as soon as it exists
    let mut p1 = mk(&s1, &c["v1"], 0);
    let p2 = mk(&s2, &c["v2"], 0);
    p1.extend(mk(&s1b, &c["v1b"], RETRY_MS + 100));
    let case = UdpCase {
        id: json!(format!("x{ln}")),
        cr,
        names: NAMES.iter().take(nq).map(|(n, t)| (n.to_string(), *t)).collect(),
        server: "192.0.2.53:53".parse().unwrap(),
        plan: vec![p1, p2],
        max_tx: 2,
        timeout_ms: 1000,
        retry_ms: RETRY_MS,
        edns: ln % 2 == 0,
        seed: ln as u64,
        via_exchange: ln % 3 == 2,
    };
    let r = run_case(case).await;
    let ex: Vec<usize> = (0..2).map(|t| r.examined.get(t).map(|v| v.len()).unwrap_or(0)).collect();
    let mut acc = json!(null);
    if r.o == "accept" {
        acc = json!({"t": 0, "pos": 0});
        for (t, v) in r.examined.iter().enumerate() {
            if let Some(p) = v.iter().position(|(tg, _)| *tg == r.tag) {
                acc = json!({"t": t + 1, "pos": p + 1});
            }
        }
    }
    let acc_ok = r.o != "accept" || c["acc"].as_array().unwrap().iter().any(|a| a["t"] == acc["t"] && a["pos"] == acc["pos"]);
    let ex_ok = ex.iter().zip(c["maxex"].as_array().unwrap()).all(|(e, m)| (*e as u64) <= m.as_u64().unwrap());
    let ok = acc_ok && ex_ok;
    let acc_kind = if r.o == "accept" {
        r.examined.iter().flatten().find(|(tg, _)| *tg == r.tag).map(|(_, k)| k.clone()).unwrap_or_default()
    } else {
        String::new()
    };
    let class = if ok {
        String::new()
    } else if !ex_ok {
        "examined-more-than-three".to_string()
    } else {
        format!("accepted:{}", if acc_kind.is_empty() { "unidentified" } else { &acc_kind })
    };
    for e in &r.events {
        writeln!(trace, "{e}").unwrap();
    }
    let forgeries_examined = r.examined.iter().flatten().filter(|(_, k)| k != "genuine").count();
    writeln!(
        out,
        "{}",
        json!({"case": format!("x{ln}"), "ok": ok, "expected": {"acc": c["acc"], "maxex": c["maxex"]},
               "observed": {"o": r.o, "acc": acc, "ex": ex, "txs": r.examined.len()},
               "class": class, "kind": acc_kind, "err": r.err, "adapter": r.adapter_errors,
               "nontrivial": forgeries_examined >= 1 && r.examined.len() == 2,
               "gen": if ok { Value::Null } else { c.clone() },
               "input": {"cr": cr, "nq": nq, "s1": s1, "s2": s2, "s1b": s1b}})
    )
    .unwrap();
}

// ---------------------------------------------------------------------------------------------
// record: seeded random queries with retransmissions

fn random_label(rng: &mut StdRng) -> String {
    const CH: &[u8] = b"abcdefghijklmnopqrstuvwxyzABCDEFGHIJKLMNOPQRSTUVWXYZ0123456789-";
    let n = rng.random_range(1..=10usize);
    let mut s = String::new();
    for i in 0..n {
        let mut c = CH[rng.random_range(0..CH.len())] as char;
        if (i == 0 || i == n - 1) && c == '-' {
            c = 'q';
        }
        s.push(c);
    }
    // at least one letter per name is guaranteed by the fixed last label below
    s
}

fn random_forge(rng: &mut StdRng) -> (Forge, String) {
    // mostly near misses: a reply that is right in everything but one or two respects
    let mut f = Forge::genuine();
    let mut kind = Vec::new();
    if rng.random_bool(0.12) {
        f.bad_ip = true;
        kind.push("ip");
    }
    if rng.random_bool(0.12) {
        f.bad_port = true;
        kind.push("port");
    }
    if rng.random_bool(0.2) {
        f.bad_id = true;
        kind.push("id");
    }
    let (q, qn) = match rng.random_range(0..20) {
        0..=7 => (QMut::Echo, ""),
        8 => (QMut::OtherName, "qname"),
        9 => (QMut::OtherType, "qtype"),
        10 => (QMut::OtherClass, "qclass"),
        11 | 12 => (QMut::FlipFirst, "qcase"),
        13 | 14 => (QMut::FlipSome, "qcaseSome"),
        15 => (QMut::Extra, "extraQ"),
        16 => (QMut::ExtraFront, "extraFront"),
        17 => (QMut::Empty, "noQ"),
        18 => (QMut::FirstOnly, "subsetQ"),
        _ => (QMut::Reversed, "reversedQ"),
    };
    f.q = q;
    if !qn.is_empty() {
        kind.push(qn);
    }
    if rng.random_bool(0.1) {
        let g = rng.random_range(0..3u8);
        f.garbage = Some(g);
        kind.push(["short", "garbage", "queryCopy"][g as usize]);
        // half of them from elsewhere: anybody can send junk to the local port
        if !f.bad_ip && !f.bad_port && rng.random_bool(0.5) {
            if rng.random_bool(0.5) {
                f.bad_ip = true;
                kind.push("ip");
            } else {
                f.bad_port = true;
                kind.push("port");
            }
        }
    }
    if kind.is_empty() && rng.random_bool(0.8) {
        // a datagram that is right in every respect is rarely what an attacker sends
        match rng.random_range(0..3) {
            0 => {
                f.bad_ip = true;
                kind.push("ip");
            }
            1 => {
                f.bad_port = true;
                kind.push("port");
            }
            _ => {
                f.bad_id = true;
                kind.push("id");
            }
        }
    }
    let k = if kind.is_empty() { "echo".to_string() } else { kind.join("+") };
    (f, k)
}

pub async fn record(seed: u64, n_cases: usize, max_dgrams: usize, trace: &mut dyn io::Write, out: &mut dyn io::Write) {
    let mut rng = StdRng::seed_from_u64(seed ^ 0x16_16);
    for case in 0..n_cases {
        let v6 = rng.random_bool(0.25);
        let port = match rng.random_range(0..4) {
            0 => rng.random_range(1024..65000u16),
            _ => 53,
        };
        let server = if v6 {
            SocketAddr::new(IpAddr::V6(Ipv6Addr::new(0x2001, 0xdb8, 0, 0, 0, 0, rng.random(), rng.random())), port)
        } else {
            SocketAddr::new(IpAddr::V4(Ipv4Addr::new(192, 0, 2, rng.random_range(1..250))), port)
        };
        let nq = [1usize, 1, 1, 1, 2, 2, 3][rng.random_range(0..7)];
        let types = [RecordType::A, RecordType::AAAA, RecordType::TXT, RecordType::MX, RecordType::NS];
        let mut names = Vec::new();
        for _ in 0..nq {
            let nl = rng.random_range(1..=3usize);
            let mut s = String::new();
            for _ in 0..nl {
                s.push_str(&random_label(&mut rng));
                s.push('.');
            }
            s.push_str(if rng.random_bool(0.5) { "Test." } else { "example." });
            names.push((s, types[rng.random_range(0..types.len())]));
        }
        let max_tx = rng.random_range(1..=4u8);
        let retry_ms = 400u64;
        let timeout_ms = [900u64, 1500, 2500][rng.random_range(0..3)];
        let nd = if rng.random_bool(0.1) { rng.random_range(0..=3) } else { rng.random_range(0..=max_dgrams) };
        let genuine_at = if rng.random_bool(0.6) && nd > 0 { Some(rng.random_range(0..nd)) } else { None };
        let mut plan: Vec<Vec<Planned>> = (0..max_tx).map(|_| Vec::new()).collect();
        for i in 0..nd {
            let t = rng.random_range(0..max_tx as usize);
            let (forge, kind) = if Some(i) == genuine_at { (Forge::genuine(), "genuine".to_string()) } else { random_forge(&mut rng) };
            let at_ms = if rng.random_bool(0.2) { 0 } else { rng.random_range(0..1500u64) };
            plan[t].push(Planned { at_ms, forge, tag: (i + 1) as u32, kind, claim: None });
        }
        for p in plan.iter_mut() {
            p.sort_by_key(|d| d.at_ms);
        }
        let id = format!("ur{seed}-{case}");
        let c = UdpCase {
            id: json!(id),
            cr: rng.random_bool(0.5),
            names,
            server,
            plan,
            max_tx,
            timeout_ms,
            retry_ms,
            edns: rng.random_bool(0.5),
            seed: rng.random(),
            via_exchange: rng.random_bool(0.4),
        };
        let via = c.via_exchange;
        let r = run_case(c).await;
        for e in &r.events {
            writeln!(trace, "{e}").unwrap();
        }
        let forgeries = r.examined.iter().flatten().filter(|(_, k)| k != "genuine" && k != "echo").count();
        writeln!(
            out,
            "{}",
            json!({"case": id, "events": r.events.len(), "o": r.o, "err": r.err, "adapter": r.adapter_errors,
                   "txs": r.examined.len(), "examined": r.examined.iter().map(|v| v.len()).collect::<Vec<_>>(),
                   "kinds": r.examined.iter().map(|v| v.iter().map(|(_, k)| k.clone()).collect::<Vec<_>>()).collect::<Vec<_>>(),
                   "planned": nd, "forgeries_examined": forgeries, "via_exchange": via})
        )
        .unwrap();
    }
}
