//! `mux-tsig`: TSIG-signed requests through the real `DnsMultiplexer` (C13, client side).
//!
//! A multiplexer is built with a `TSigner` over a scripted `DnsClientStream`; a request that
//! gets signed (AXFR query, UPDATE) is handed to it and the signed bytes are read off the
//! outbound side.  The scripted peer answers with a reply of 1..4 messages made with the same
//! key: the first message is signed by the server-side code (`TSigResponseContext::sign`, what
//! `Catalog` calls), continuation messages are signed here according to RFC 8945 5.3.1
//! (HMAC over prior MAC | message | time | fudge, computed with `ring`).  Some message of the
//! reply may then be altered on the path: one bit flipped, the MAC replaced by garbage, or the
//! message signed with a different secret.  The messages are delivered one at a time; after
//! each, the multiplexer runs and the request's receiver is polled: the result for that message
//! is "ok" (handed to the caller as a good response), "err" (an error item) or "none".
//!
//! One NDJSON event per case goes to `--trace`; the TLA+ monitor Trace_Tsig judges it.  No
//! expected values are computed here.
use std::collections::VecDeque;
use std::future::Future;
use std::io;
use std::net::SocketAddr;
use std::pin::Pin;
use std::str::FromStr;
use std::sync::atomic::{AtomicBool, Ordering};
use std::sync::{Arc, Mutex};
use std::task::{Context, Poll, Wake, Waker};
use std::time::Duration;

use async_trait::async_trait;
use futures_util::stream::{Stream, StreamExt};
use futures_util::task::noop_waker;
use hickory_net::runtime::Time;
use hickory_net::xfer::{BufDnsStreamHandle, DnsClientStream, DnsMultiplexer, DnsRequestSender};
use hickory_net::NetError;
use hickory_proto::op::{DnsRequest, DnsRequestOptions, Message, MessageType, OpCode, Query, ResponseCode, SerialMessage};
use hickory_proto::rr::rdata::tsig::{make_tsig_record, TsigAlgorithm, TsigError, TSIG};
use hickory_proto::rr::rdata::{A, SOA};
use hickory_proto::rr::{Name, RData, Record, RecordType, TSigResponseContext, TSigner};
use rand::rngs::StdRng;
use rand::{RngExt, SeedableRng};
use serde_json::{json, Value};

const T0: u64 = 1_750_000_000;
const FUDGE: u16 = 300;
const KEY: &[u8] = b"c13-mux-tsig-secret-0123456789ab";
const OTHER_KEY: &[u8] = b"another-secret-known-to-nobody-x";
const KEY_NAME: &str = "Mux-Tsig-Key.example.";

/// The clock the multiplexer signs with (`S::Time::current_time()`): fixed, so that the scripted
/// peer can sign inside the fudge window without looking at the wall clock.
#[derive(Clone, Copy)]
pub struct FixedClock;

#[async_trait]
impl Time for FixedClock {
    async fn delay_for(duration: Duration) {
        tokio::time::sleep(duration).await
    }
    async fn timeout<F: 'static + Future + Send>(duration: Duration, future: F) -> Result<F::Output, io::Error> {
        tokio::time::timeout(duration, future).await.map_err(|_| io::Error::new(io::ErrorKind::TimedOut, "future timed out"))
    }
    fn current_time() -> u64 {
        T0
    }
}

#[derive(Default)]
struct Inbound {
    q: VecDeque<Vec<u8>>,
    waker: Option<Waker>,
}

struct Peer {
    inb: Arc<Mutex<Inbound>>,
    addr: SocketAddr,
}

impl Stream for Peer {
    type Item = Result<SerialMessage, NetError>;
    fn poll_next(self: Pin<&mut Self>, cx: &mut Context<'_>) -> Poll<Option<Self::Item>> {
        let mut inb = self.inb.lock().unwrap();
        match inb.q.pop_front() {
            Some(b) => Poll::Ready(Some(Ok(SerialMessage::new(b, self.addr)))),
            None => {
                inb.waker = Some(cx.waker().clone());
                Poll::Pending
            }
        }
    }
}

impl DnsClientStream for Peer {
    type Time = FixedClock;
    fn name_server_addr(&self) -> SocketAddr {
        self.addr
    }
}

struct WakeFlag(AtomicBool);
impl Wake for WakeFlag {
    fn wake(self: Arc<Self>) {
        self.0.store(true, Ordering::SeqCst);
    }
    fn wake_by_ref(self: &Arc<Self>) {
        self.0.store(true, Ordering::SeqCst);
    }
}

fn signer(secret: &[u8]) -> TSigner {
    TSigner::new(secret.to_vec(), TsigAlgorithm::HmacSha256, Name::from_str(KEY_NAME).unwrap(), FUDGE).unwrap()
}

fn origin() -> Name {
    Name::from_str("example.com.").unwrap()
}

fn soa() -> Record {
    Record::from_rdata(
        origin(),
        3600,
        RData::SOA(SOA::new(
            Name::from_str("ns.example.com.").unwrap(),
            Name::from_str("admin.example.com.").unwrap(),
            2024,
            3600,
            600,
            86400,
            300,
        )),
    )
}

fn www(i: u8) -> Record {
    Record::from_rdata(Name::from_str("www.example.com.").unwrap(), 3600, RData::A(A::new(192, 0, 2, i)))
}

fn hmac(secret: &[u8], tbs: &[u8]) -> Vec<u8> {
    let key = ring::hmac::Key::new(ring::hmac::HMAC_SHA256, secret);
    ring::hmac::sign(&key, tbs).as_ref().to_vec()
}

#[derive(Clone, Copy, Debug, PartialEq)]
enum Kind {
    Genuine,
    BitFlip,
    BadMac,
    OtherKey,
    /// TSIG with an empty MAC and the given error code (0, BADSIG 16, BADKEY 17, BADTIME 18,
    /// BADTRUNC 22), RCODE NOTAUTH or NOERROR, with or without records of the attacker's: the
    /// shape of the unsigned error response of RFC 8945 5.2.1/5.2.2 -- anybody can make one
    EmptyMac { error: u16, notauth: bool, answers: bool },
    /// one bit flipped in the header (0), in the question / answer sections (1), in the TSIG RDATA (2)
    BitFlipIn(u8),
    /// the genuine MAC cut to 8 octets (below the minimum RFC 8945 5.2.4 allows)
    TruncMac,
    /// the genuine message with the TSIG record removed
    Unsigned,
    /// a genuinely signed reply to a DIFFERENT request, its ID rewritten to this request's
    Replay,
}

impl Kind {
    fn name(self) -> String {
        match self {
            Kind::Genuine => "genuine".into(),
            Kind::BitFlip => "bitflip".into(),
            Kind::BitFlipIn(r) => format!("bitflip-{}", ["header", "body", "tsig"][r as usize % 3]),
            Kind::BadMac => "badmac".into(),
            Kind::OtherKey => "otherkey".into(),
            Kind::EmptyMac { error, notauth, answers } => {
                format!("emptymac-e{error}-{}{}", if notauth { "notauth" } else { "noerror" }, if answers { "-records" } else { "" })
            }
            Kind::TruncMac => "truncmac".into(),
            Kind::Unsigned => "unsigned".into(),
            Kind::Replay => "replay".into(),
        }
    }
}

struct Built {
    bytes: Vec<u8>,
    mac: Vec<u8>,       // the MAC this message carries (what a genuine successor chains on)
    tsig_at: usize,     // offset of the TSIG record (= length of the unsigned message)
    key_name_len: usize, // wire length of the TSIG owner name
}

#[derive(Clone)]
enum Mac {
    Computed,
    Override(Vec<u8>),
    Empty,
    Trunc(usize),
    /// no TSIG record at all
    Absent,
}

#[derive(Clone)]
struct Shape {
    mac: Mac,
    error: Option<TsigError>,
    notauth: bool,
    attacker_records: bool,
}

impl Shape {
    fn genuine() -> Self {
        Shape { mac: Mac::Computed, error: None, notauth: false, attacker_records: false }
    }
}

fn tsig_error(code: u16) -> Option<TsigError> {
    match code {
        0 => None,
        16 => Some(TsigError::BadSig),
        17 => Some(TsigError::BadKey),
        18 => Some(TsigError::BadTime),
        22 => Some(TsigError::BadTrunc),
        c => Some(TsigError::Unknown(c)),
    }
}

/// message `i` (1-based) of `n` of the reply to `request`, signed with `secret`, chained on `prior`
fn build(request: &Message, op: &str, i: usize, n: usize, secret: &[u8], prior: &[u8], mac_override: Option<Vec<u8>>) -> Built {
    let mut shape = Shape::genuine();
    if let Some(m) = mac_override {
        shape.mac = Mac::Override(m);
    }
    build_shape(request, op, i, n, secret, prior, &shape)
}

fn build_shape(request: &Message, op: &str, i: usize, n: usize, secret: &[u8], prior: &[u8], shape: &Shape) -> Built {
    let mut m = Message::response(request.id, request.op_code);
    m.metadata.message_type = MessageType::Response;
    m.metadata.response_code = if shape.notauth { ResponseCode::NotAuth } else { ResponseCode::NoError };
    m.metadata.authoritative = true;
    m.add_queries(request.queries.clone());
    if op == "axfr" && !shape.notauth {
        let mut answers = Vec::new();
        if i == 1 {
            answers.push(soa());
        }
        answers.push(www(i as u8));
        if i == n {
            answers.push(soa());
        }
        m.add_answers(answers);
    }
    if shape.attacker_records {
        m.add_answers(vec![Record::from_rdata(Name::from_str("www.example.com.").unwrap(), 3600, RData::A(A::new(203, 0, 113, 66)))]);
    }
    let unsigned = m.to_vec().expect("encode");
    let key_name_len = Name::from_str(KEY_NAME).unwrap().iter().map(|l| l.len() + 1).sum::<usize>() + 1;
    if matches!(shape.mac, Mac::Absent) {
        return Built { tsig_at: unsigned.len(), bytes: unsigned, mac: Vec::new(), key_name_len };
    }
    // several messages of a stream are signed within the same second (1 and 2 at T0, 3 and 4 at T0 + 1):
    // time must not go backwards, but it need not advance
    let time = T0 + (i as u64 - 1) / 2;
    let s = signer(secret);
    let computed: Vec<u8> = if i == 1 {
        // the first message is signed by the code the server uses (Catalog -> TSigResponseContext)
        TSigResponseContext::new(request.id, time, s.clone(), prior.to_vec(), None).sign(&unsigned).expect("sign").data.mac.clone()
    } else {
        // RFC 8945 5.3.1: later messages are signed over prior MAC | message | time | fudge
        let mut tbs = Vec::new();
        tbs.extend_from_slice(&(prior.len() as u16).to_be_bytes());
        tbs.extend_from_slice(prior);
        tbs.extend_from_slice(&unsigned);
        tbs.extend_from_slice(&time.to_be_bytes()[2..]);
        tbs.extend_from_slice(&FUDGE.to_be_bytes());
        hmac(secret, &tbs)
    };
    let mac = match &shape.mac {
        Mac::Computed => computed,
        Mac::Override(m) => m.clone(),
        Mac::Empty => Vec::new(),
        Mac::Trunc(k) => computed[..*k].to_vec(),
        Mac::Absent => unreachable!(),
    };
    // BADTIME carries the server's clock in Other Data
    let other = if matches!(shape.error, Some(TsigError::BadTime)) { time.to_be_bytes()[2..].to_vec() } else { Vec::new() };
    let rec = Box::new(make_tsig_record(
        s.signer_name().clone(),
        TSIG::new(TsigAlgorithm::HmacSha256, time, FUDGE, mac.clone(), request.id, shape.error, other),
    ));
    m.set_signature(rec);
    let bytes = m.to_vec().expect("encode signed");
    Built { bytes, mac, tsig_at: unsigned.len(), key_name_len }
}

/// what arrives in place of (or in front of) the genuine message `i` of the reply
fn altered(kind: Kind, request: &Message, op: &str, i: usize, n: usize, prior: &[u8], genuine: &Built, rng: &mut StdRng) -> (Vec<u8>, usize) {
    match kind {
        Kind::Genuine => (genuine.bytes.clone(), 0),
        Kind::BitFlip => flip_bit(genuine, 2, genuine.bytes.len(), i == 1, rng),
        Kind::BitFlipIn(r) => match r % 3 {
            0 => flip_bit(genuine, 2, 12, i == 1, rng),
            1 => flip_bit(genuine, 12, genuine.tsig_at, i == 1, rng),
            _ => flip_bit(genuine, genuine.tsig_at + genuine.key_name_len, genuine.bytes.len(), i == 1, rng),
        },
        Kind::BadMac => {
            let mac: Vec<u8> = if rng.random_bool(0.5) { vec![0x5a; 32] } else { (0..32).map(|_| rng.random::<u8>()).collect() };
            (build(request, op, i, n, KEY, prior, Some(mac)).bytes, 0)
        }
        Kind::OtherKey => (build(request, op, i, n, OTHER_KEY, prior, None).bytes, 0),
        Kind::EmptyMac { error, notauth, answers } => {
            let shape = Shape { mac: Mac::Empty, error: tsig_error(error), notauth, attacker_records: answers };
            (build_shape(request, op, i, n, KEY, prior, &shape).bytes, 0)
        }
        Kind::TruncMac => (build_shape(request, op, i, n, KEY, prior, &Shape { mac: Mac::Trunc(8), ..Shape::genuine() }).bytes, 0),
        Kind::Unsigned => (build_shape(request, op, i, n, KEY, prior, &Shape { mac: Mac::Absent, ..Shape::genuine() }).bytes, 0),
        Kind::Replay => {
            // a genuine reply to another request of the same kind: other ID, other request MAC
            let mut other = request.clone();
            other.metadata.id = request.id ^ 0x5a5a;
            let other_mac = hmac(KEY, &other.metadata.id.to_be_bytes());
            let mut b = build(&other, op, i, n, KEY, &other_mac, None).bytes;
            b[..2].copy_from_slice(&request.id.to_be_bytes()); // the ID is not covered by the MAC
            (b, 0)
        }
    }
}

/// flips one bit that the MAC has to cover: not in the message ID (octets 0-1, replaced by the
/// original ID before the MAC is computed) and not the letter-case bit of the key name.  In every message
/// of a reply but the first the digest covers, of the TSIG record, only the timers (RFC 8945 5.3.1: prior
/// MAC, DNS message, Time Signed and Fudge); what the MAC does not cover there -- class, TTL, algorithm
/// name, error, other data -- is not a "modified reply" the property could expect to be refused
fn flip_bit(b: &Built, lo: usize, hi: usize, first: bool, rng: &mut StdRng) -> (Vec<u8>, usize) {
    let rd = b.tsig_at + b.key_name_len + 10;
    let mut alg_end = rd;
    while alg_end < b.bytes.len() && b.bytes[alg_end] != 0 && b.bytes[alg_end] & 0xC0 == 0 {
        alg_end += 1 + b.bytes[alg_end] as usize;
    }
    let timers = alg_end + 1; // Time Signed (6) + Fudge (2)
    let mac_len = if timers + 10 <= b.bytes.len() { u16::from_be_bytes([b.bytes[timers + 8], b.bytes[timers + 9]]) as usize } else { 0 };
    let mac = timers + 10;
    loop {
        let byte = rng.random_range(lo..hi);
        let bit = rng.random_range(0..8usize);
        let in_key_name = byte >= b.tsig_at && byte < b.tsig_at + b.key_name_len;
        if in_key_name && bit == 5 && b.bytes[byte].is_ascii_alphabetic() {
            continue;
        }
        if !first && byte >= b.tsig_at + b.key_name_len {
            let covered = (byte >= timers && byte < timers + 8) || (byte >= mac && byte < mac + mac_len);
            if !covered {
                continue;
            }
        }
        let mut m = b.bytes.clone();
        m[byte] ^= 1 << bit;
        return (m, byte * 8 + bit);
    }
}

struct Run {
    mux: DnsMultiplexer<Peer>,
    inb: Arc<Mutex<Inbound>>,
    woken: Arc<WakeFlag>,
}

impl Run {
    fn run_mux(&mut self, force: bool) {
        let waker = Waker::from(self.woken.clone());
        let mut cx = Context::from_waker(&waker);
        let mut first = force;
        let mut guard = 0;
        while (first || self.woken.0.swap(false, Ordering::SeqCst)) && guard < 1000 {
            first = false;
            guard += 1;
            self.woken.0.store(false, Ordering::SeqCst);
            match Pin::new(&mut self.mux).poll_next(&mut cx) {
                Poll::Ready(None) => return,
                Poll::Ready(Some(_)) => self.woken.0.store(true, Ordering::SeqCst),
                Poll::Pending => {}
            }
        }
    }
}

/// one case: returns the event
fn one_case(case: &str, scenario: &str, op: &str, plan: &[Kind], inject: bool, rng: &mut StdRng) -> Value {
    let addr: SocketAddr = "192.0.2.53:53".parse().unwrap();
    let inb = Arc::new(Mutex::new(Inbound::default()));
    let (handle, mut out_rx) = BufDnsStreamHandle::new(addr);
    let mux = DnsMultiplexer::new(Peer { inb: inb.clone(), addr }, handle)
        .with_timeout(Duration::from_secs(5))
        .with_signer(signer(KEY));
    let mut run = Run { mux, inb, woken: Arc::new(WakeFlag(AtomicBool::new(false))) };
    run.run_mux(true);

    // the request
    let mut opts = DnsRequestOptions::default();
    opts.use_edns = false;
    let req = if op == "axfr" {
        DnsRequest::from_query(Query::new(origin(), RecordType::AXFR), opts)
    } else {
        let mut m = Message::new(rng.random(), MessageType::Query, OpCode::Update);
        m.add_query(Query::new(origin(), RecordType::SOA));
        m.authorities.push(www(200));
        DnsRequest::new(m, opts)
    };
    let mut rx = run.mux.send_message(req);
    run.run_mux(true);
    let waker = noop_waker();
    let mut cx = Context::from_waker(&waker);
    let on_wire = match out_rx.poll_next_unpin(&mut cx) {
        Poll::Ready(Some(m)) => m.into_parts().0,
        _ => return json!({"ev": "muxreply", "case": case, "scenario": scenario, "op": op, "msgs": [], "note": "nothing on the wire"}),
    };
    let request = Message::from_vec(&on_wire).expect("request parses");
    let Some(req_tsig) = request.signature() else {
        return json!({"ev": "muxreply", "case": case, "scenario": scenario, "op": op, "msgs": [], "note": "request not signed"});
    };
    let request_signed_ok = signer(KEY).verify_message_byte(&on_wire, None, true).is_ok();

    // the reply: a genuine chain, one message of which may be altered or injected on the path
    let n = plan.len();
    let mut prior = req_tsig.data.mac.clone(); // what the next genuine message chains on
    let mut msgs = Vec::new();
    let mut results = Vec::new();
    for (k, kind) in plan.iter().enumerate() {
        let i = k + 1;
        let genuine = build(&request, op, i, n, KEY, &prior, None);
        let (bytes, at) = altered(*kind, &request, op, i, n, &prior, &genuine, rng);
        // an altered message either replaces the genuine one (the genuine successors chain on a
        // MAC the client never saw) or is injected in front of it (the genuine chain goes on)
        if *kind == Kind::Genuine || !inject {
            prior = genuine.mac.clone();
        }
        msgs.push((kind.name(), at));
        {
            let mut q = run.inb.lock().unwrap();
            q.q.push_back(bytes);
            if let Some(w) = q.waker.take() {
                w.wake();
            }
        }
        run.run_mux(false);
        let mut result = "none";
        let mut detail = String::new();
        loop {
            match rx.poll_next_unpin(&mut cx) {
                Poll::Ready(Some(Ok(resp))) => {
                    result = "ok";
                    detail = format!("{} answers", resp.answers.len());
                }
                Poll::Ready(Some(Err(e))) => {
                    if result != "ok" {
                        result = "err";
                        detail = e.to_string();
                    }
                }
                Poll::Ready(None) => {
                    if result == "none" {
                        detail = "stream ended".into();
                    }
                    break;
                }
                Poll::Pending => break,
            }
        }
        results.push((result, detail));
    }
    json!({"ev": "muxreply", "case": case, "scenario": scenario, "op": op, "inject": inject,
           "request_signed": request_signed_ok,
           "msgs": msgs.iter().zip(results.iter()).map(|((kind, at), (result, detail))|
                json!({"kind": kind, "result": result, "bit": at, "detail": detail})).collect::<Vec<_>>()})
}

pub fn record(seed: u64, n: usize, trace: &mut dyn io::Write, out: &mut dyn io::Write) {
    let mut rng = StdRng::seed_from_u64(seed ^ 0x13_16);
    let forged = mux_forged_kinds();
    let mut emit = |ev: Value| {
        writeln!(trace, "{ev}").unwrap();
        writeln!(out, "{}", json!({"case": ev["case"], "scenario": ev["scenario"],
            "results": ev["msgs"].as_array().unwrap().iter().map(|m| format!("{}:{}", m["kind"].as_str().unwrap(), m["result"].as_str().unwrap())).collect::<Vec<_>>()})).unwrap();
    };
    for c in 0..n {
        let op = if c % 2 == 0 { "axfr" } else { "update" };
        // (a) single genuine reply
        emit(one_case(&format!("mt{seed}-{c}-a"), "single-genuine", op, &[Kind::Genuine], false, &mut rng));
        // (b) single reply, altered
        let k = forged[c % forged.len()];
        emit(one_case(&format!("mt{seed}-{c}-b"), &format!("single-{}", k.name()), op, &[k], false, &mut rng));
        // (c) chain of 2-4 genuine messages
        let len = 2 + c % 3;
        emit(one_case(&format!("mt{seed}-{c}-c"), "chain-genuine", "axfr", &vec![Kind::Genuine; len], false, &mut rng));
        // (d) chain whose message k >= 2 has a flipped bit / a garbage MAC; (e) ... was signed with another key
        let empty = empty_mac_kinds();
        let f = empty[(c * 7 + 3) % empty.len()];
        for (tag, kind) in [("d1", Kind::BitFlip), ("d2", Kind::BadMac), ("e", Kind::OtherKey), ("f", f), ("g", Kind::TruncMac)] {
            let len = 2 + rng.random_range(0..3usize);
            let pos = rng.random_range(1..len); // 0-based index >= 1
            let mut plan = vec![Kind::Genuine; len];
            plan[pos] = kind;
            let inject = rng.random_bool(0.5);
            emit(one_case(&format!("mt{seed}-{c}-{tag}"), &format!("chain-{}", kind.name()), "axfr", &plan, inject, &mut rng));
        }
        // (h) the LAST message of a chain arrives with its TSIG record removed.  RFC 8945 5.3.1 lets a
        // client take unsigned messages in the middle of a stream provisionally (they enter the next
        // digest), but the final message must be signed: at this position every conformant client refuses
        let len = 2 + rng.random_range(0..3usize);
        let mut plan = vec![Kind::Genuine; len];
        plan[len - 1] = Kind::Unsigned;
        emit(one_case(&format!("mt{seed}-{c}-h"), "chain-unsigned-last", "axfr", &plan, false, &mut rng));
    }
}

/// TSIG records with an empty MAC: every error code x RCODE x with / without attacker records
fn empty_mac_kinds() -> Vec<Kind> {
    let mut v = Vec::new();
    for error in [17u16, 16, 0, 18, 22] {
        for notauth in [false, true] {
            for answers in [true, false] {
                v.push(Kind::EmptyMac { error, notauth, answers });
            }
        }
    }
    v
}

fn mux_forged_kinds() -> Vec<Kind> {
    let mut v = vec![Kind::BitFlip, Kind::BadMac, Kind::OtherKey, Kind::TruncMac, Kind::Replay];
    v.extend(empty_mac_kinds());
    v
}

// ---------------------------------------------------------------------------------------------
// `udp-tsig`: the same over the real UdpClientStream built with a signer.
//
// The scripted socket reads the signed request off `send_to` and answers from the queried
// address and port with a sequence of replies (kinds as above plus `unsigned`).  The UDP client
// returns on the first reply that passes its ID / question checks, so the outcome of the query
// belongs to the last datagram the socket handed out; datagrams handed out before it were
// skipped ("none"), datagrams never asked for were not looked at ("none").

struct UdpShared {
    op: &'static str,
    plan: Vec<Kind>,
    queue: VecDeque<Vec<u8>>,
    handed_out: usize,
    request_signed: bool,
    rng: StdRng,
    bits: Vec<usize>,
}

#[derive(Clone)]
struct TsigProvider {
    sh: Arc<Mutex<UdpShared>>,
    server: SocketAddr,
    handle: hickory_net::runtime::TokioHandle,
}

struct TsigSocket {
    sh: Arc<Mutex<UdpShared>>,
    server: SocketAddr,
}

struct NoTcp;
impl futures_io::AsyncRead for NoTcp {
    fn poll_read(self: Pin<&mut Self>, _cx: &mut Context<'_>, _buf: &mut [u8]) -> Poll<io::Result<usize>> {
        Poll::Ready(Err(io::Error::other("no tcp")))
    }
}
impl futures_io::AsyncWrite for NoTcp {
    fn poll_write(self: Pin<&mut Self>, _cx: &mut Context<'_>, _buf: &[u8]) -> Poll<io::Result<usize>> {
        Poll::Ready(Err(io::Error::other("no tcp")))
    }
    fn poll_flush(self: Pin<&mut Self>, _cx: &mut Context<'_>) -> Poll<io::Result<()>> {
        Poll::Ready(Ok(()))
    }
    fn poll_close(self: Pin<&mut Self>, _cx: &mut Context<'_>) -> Poll<io::Result<()>> {
        Poll::Ready(Ok(()))
    }
}
impl hickory_net::runtime::DnsTcpStream for NoTcp {
    type Time = FixedClock;
}

impl hickory_net::runtime::RuntimeProvider for TsigProvider {
    type Handle = hickory_net::runtime::TokioHandle;
    type Timer = FixedClock;
    type Udp = TsigSocket;
    type Tcp = NoTcp;
    fn create_handle(&self) -> Self::Handle {
        self.handle.clone()
    }
    fn connect_tcp(&self, _s: SocketAddr, _b: Option<SocketAddr>, _t: Option<Duration>) -> Pin<Box<dyn Send + Future<Output = Result<Self::Tcp, io::Error>>>> {
        Box::pin(async { Err(io::Error::other("no tcp")) })
    }
    fn bind_udp(&self, _local: SocketAddr, _server: SocketAddr) -> Pin<Box<dyn Send + Future<Output = Result<Self::Udp, io::Error>>>> {
        let (sh, server) = (self.sh.clone(), self.server);
        Box::pin(async move { Ok(TsigSocket { sh, server }) })
    }
}

#[async_trait]
impl hickory_net::runtime::DnsUdpSocket for TsigSocket {
    type Time = FixedClock;
    fn poll_recv_from(&self, _cx: &mut Context<'_>, buf: &mut [u8]) -> Poll<io::Result<(usize, SocketAddr)>> {
        let mut s = self.sh.lock().unwrap();
        match s.queue.pop_front() {
            None => Poll::Pending, // nothing more arrives: the query runs into its timeout
            Some(b) => {
                let n = b.len().min(buf.len());
                buf[..n].copy_from_slice(&b[..n]);
                s.handed_out += 1;
                Poll::Ready(Ok((n, self.server)))
            }
        }
    }
    fn poll_send_to(&self, _cx: &mut Context<'_>, buf: &[u8], _target: SocketAddr) -> Poll<io::Result<usize>> {
        let mut guard = self.sh.lock().unwrap();
        let s = &mut *guard;
        if let Ok(request) = Message::from_vec(buf) {
            if let Some(req_tsig) = request.signature() {
                s.request_signed = signer(KEY).verify_message_byte(buf, None, true).is_ok();
                let prior = req_tsig.data.mac.clone();
                let genuine = build(&request, s.op, 1, 1, KEY, &prior, None);
                for kind in s.plan.clone() {
                    let (bytes, at) = altered(kind, &request, s.op, 1, 1, &prior, &genuine, &mut s.rng);
                    s.queue.push_back(bytes);
                    s.bits.push(at);
                }
            }
        }
        Poll::Ready(Ok(buf.len()))
    }
}

async fn one_udp_case(case: &str, scenario: &str, op: &'static str, plan: &[Kind], seed: u64) -> Value {
    use hickory_net::udp::UdpClientStream;
    let server: SocketAddr = "192.0.2.53:53".parse().unwrap();
    let sh = Arc::new(Mutex::new(UdpShared {
        op,
        plan: plan.to_vec(),
        queue: VecDeque::new(),
        handed_out: 0,
        request_signed: false,
        rng: StdRng::seed_from_u64(seed),
        bits: Vec::new(),
    }));
    let provider = TsigProvider { sh: sh.clone(), server, handle: Default::default() };
    let mut stream = UdpClientStream::builder(server, provider)
        .with_timeout(Some(Duration::from_millis(1000)))
        .with_max_retries(1)
        .with_signer(Some(signer(KEY)))
        .build();
    let mut opts = DnsRequestOptions::default();
    opts.use_edns = false;
    let req = if op == "axfr" {
        DnsRequest::from_query(Query::new(origin(), RecordType::AXFR), opts)
    } else {
        let mut m = Message::new(seed as u16 ^ 0x1357, MessageType::Query, OpCode::Update);
        m.add_query(Query::new(origin(), RecordType::SOA));
        m.authorities.push(www(200));
        DnsRequest::new(m, opts)
    };
    let mut rs = stream.send_message(req);
    let (outcome, detail) = match rs.next().await {
        Some(Ok(resp)) => ("ok", format!("rcode {} answers {}", resp.response_code, resp.answers.len())),
        Some(Err(e)) => ("err", e.to_string()),
        None => ("none", "timeout".to_string()),
    };
    let s = sh.lock().unwrap();
    let msgs: Vec<Value> = plan
        .iter()
        .enumerate()
        .map(|(k, kind)| {
            // the outcome belongs to the last datagram handed out
            let result = if k + 1 == s.handed_out && outcome != "none" { outcome } else { "none" };
            json!({"kind": kind.name(), "result": result, "bit": s.bits.get(k).copied().unwrap_or(0),
                   "detail": if k + 1 == s.handed_out { detail.clone() } else { String::new() }})
        })
        .collect();
    json!({"ev": "udpreply", "case": case, "scenario": scenario, "op": op, "request_signed": s.request_signed,
           "examined": s.handed_out, "msgs": msgs})
}

pub async fn record_udp(seed: u64, n: usize, trace: &mut dyn io::Write, out: &mut dyn io::Write) {
    let mut forged = mux_forged_kinds();
    forged.push(Kind::Unsigned);
    forged.extend([Kind::BitFlipIn(0), Kind::BitFlipIn(1), Kind::BitFlipIn(2)]);
    let mut emit = |ev: Value| {
        writeln!(trace, "{ev}").unwrap();
        writeln!(out, "{}", json!({"case": ev["case"], "scenario": ev["scenario"],
            "results": ev["msgs"].as_array().unwrap().iter().map(|m| format!("{}:{}", m["kind"].as_str().unwrap(), m["result"].as_str().unwrap())).collect::<Vec<_>>()})).unwrap();
    };
    let mut k = 0u64;
    for c in 0..n {
        for op in ["axfr", "update"] {
            k += 1;
            emit(one_udp_case(&format!("ut{seed}-{c}-{op}-a"), "single-genuine", op, &[Kind::Genuine], seed * 1000 + k).await);
            // every forged kind, alone and in front of the genuine reply
            for (j, kind) in forged.iter().enumerate() {
                k += 1;
                let plan: Vec<Kind> = if (c + j) % 2 == 0 { vec![*kind] } else { vec![*kind, Kind::Genuine] };
                emit(one_udp_case(&format!("ut{seed}-{c}-{op}-{j}"), &format!("forged-{}", kind.name()), op, &plan, seed * 1000 + k).await);
            }
        }
    }
}
