//! `mux-tsig`: TSIG-signed requests through the real `DnsMultiplexer` (C13, client side).
//!
//! A multiplexer is built with a `TSigner` over a scripted `DnsClientStream`; a request that
//! gets signed (AXFR query, UPDATE) is handed to it and the signed bytes are read off the
//! outbound side.  The scripted peer answers with a reply of 1..4 messages made with the same
//! key: the first message is signed by the server-side code (`TSigResponseContext::sign`, what
//! `Catalog` calls), continuation messages are signed here according to RFC 8945 5.3.1
//! (HMAC over prior MAC | message | time | fudge, computed with `ring`).  Some message of the
//! reply may then be altered on the path: one bit flipped, the MAC replaced by garbage, or the
//! message signed with a different secret.  The messages are delivered one at a time; after
//! each, the multiplexer runs and the request's receiver is polled: the result for that message
//! is "ok" (handed to the caller as a good response), "err" (an error item) or "none".
//!
//! One NDJSON event per case goes to `--trace`; the TLA+ monitor Trace_Tsig judges it.  No
//! expected values are computed here.
use std::collections::VecDeque;
use std::future::Future;
use std::io;
use std::net::SocketAddr;
use std::pin::Pin;
use std::str::FromStr;
use std::sync::atomic::{AtomicBool, Ordering};
use std::sync::{Arc, Mutex};
use std::task::{Context, Poll, Wake, Waker};
use std::time::Duration;

use async_trait::async_trait;
use futures_util::stream::{Stream, StreamExt};
use futures_util::task::noop_waker;
use hickory_net::runtime::Time;
use hickory_net::xfer::{BufDnsStreamHandle, DnsClientStream, DnsMultiplexer, DnsRequestSender};
use hickory_net::NetError;
use hickory_proto::op::{DnsRequest, DnsRequestOptions, Message, MessageType, OpCode, Query, ResponseCode, SerialMessage};
use hickory_proto::rr::rdata::tsig::{make_tsig_record, TsigAlgorithm, TSIG};
use hickory_proto::rr::rdata::{A, SOA};
use hickory_proto::rr::{Name, RData, Record, RecordType, TSigResponseContext, TSigner};
use rand::rngs::StdRng;
use rand::{RngExt, SeedableRng};
use serde_json::{json, Value};

const T0: u64 = 1_750_000_000;
const FUDGE: u16 = 300;
const KEY: &[u8] = b"c13-mux-tsig-secret-0123456789ab";
const OTHER_KEY: &[u8] = b"another-secret-known-to-nobody-x";
const KEY_NAME: &str = "Mux-Tsig-Key.example.";

/// The clock the multiplexer signs with (`S::Time::current_time()`): fixed, so that the scripted
/// peer can sign inside the fudge window without looking at the wall clock.
#[derive(Clone, Copy)]
pub struct FixedClock;

#[async_trait]
impl Time for FixedClock {
    async fn delay_for(duration: Duration) {
        tokio::time::sleep(duration).await
    }
    async fn timeout<F: 'static + Future + Send>(duration: Duration, future: F) -> Result<F::Output, io::Error> {
        tokio::time::timeout(duration, future).await.map_err(|_| io::Error::new(io::ErrorKind::TimedOut, "future timed out"))
    }
    fn current_time() -> u64 {
        T0
    }
}

#[derive(Default)]
struct Inbound {
    q: VecDeque<Vec<u8>>,
    waker: Option<Waker>,
}

struct Peer {
    inb: Arc<Mutex<Inbound>>,
    addr: SocketAddr,
}

impl Stream for Peer {
    type Item = Result<SerialMessage, NetError>;
    fn poll_next(self: Pin<&mut Self>, cx: &mut Context<'_>) -> Poll<Option<Self::Item>> {
        let mut inb = self.inb.lock().unwrap();
        match inb.q.pop_front() {
            Some(b) => Poll::Ready(Some(Ok(SerialMessage::new(b, self.addr)))),
            None => {
                inb.waker = Some(cx.waker().clone());
                Poll::Pending
            }
        }
    }
}

impl DnsClientStream for Peer {
    type Time = FixedClock;
    fn name_server_addr(&self) -> SocketAddr {
        self.addr
    }
}

struct WakeFlag(AtomicBool);
impl Wake for WakeFlag {
    fn wake(self: Arc<Self>) {
        self.0.store(true, Ordering::SeqCst);
    }
    fn wake_by_ref(self: &Arc<Self>) {
        self.0.store(true, Ordering::SeqCst);
    }
}

fn signer(secret: &[u8]) -> TSigner {
    TSigner::new(secret.to_vec(), TsigAlgorithm::HmacSha256, Name::from_str(KEY_NAME).unwrap(), FUDGE).unwrap()
}

fn origin() -> Name {
    Name::from_str("example.com.").unwrap()
}

fn soa() -> Record {
    Record::from_rdata(
        origin(),
        3600,
        RData::SOA(SOA::new(
            Name::from_str("ns.example.com.").unwrap(),
            Name::from_str("admin.example.com.").unwrap(),
            2024,
            3600,
            600,
            86400,
            300,
        )),
    )
}

fn www(i: u8) -> Record {
    Record::from_rdata(Name::from_str("www.example.com.").unwrap(), 3600, RData::A(A::new(192, 0, 2, i)))
}

fn hmac(secret: &[u8], tbs: &[u8]) -> Vec<u8> {
    let key = ring::hmac::Key::new(ring::hmac::HMAC_SHA256, secret);
    ring::hmac::sign(&key, tbs).as_ref().to_vec()
}

#[derive(Clone, Copy, Debug, PartialEq)]
enum Kind {
    Genuine,
    BitFlip,
    BadMac,
    OtherKey,
}

impl Kind {
    fn name(self) -> &'static str {
        match self {
            Kind::Genuine => "genuine",
            Kind::BitFlip => "bitflip",
            Kind::BadMac => "badmac",
            Kind::OtherKey => "otherkey",
        }
    }
}

struct Built {
    bytes: Vec<u8>,
    mac: Vec<u8>,       // the MAC this message carries (what a genuine successor chains on)
    tsig_at: usize,     // offset of the TSIG record (= length of the unsigned message)
    key_name_len: usize, // wire length of the TSIG owner name
}

/// message `i` (1-based) of `n` of the reply to `request`, signed with `secret`, chained on `prior`
fn build(request: &Message, op: &str, i: usize, n: usize, secret: &[u8], prior: &[u8], mac_override: Option<Vec<u8>>) -> Built {
    let mut m = Message::response(request.id, request.op_code);
    m.metadata.message_type = MessageType::Response;
    m.metadata.response_code = ResponseCode::NoError;
    m.metadata.authoritative = true;
    m.add_queries(request.queries.clone());
    if op == "axfr" {
        let mut answers = Vec::new();
        if i == 1 {
            answers.push(soa());
        }
        answers.push(www(i as u8));
        if i == n {
            answers.push(soa());
        }
        m.add_answers(answers);
    }
    let unsigned = m.to_vec().expect("encode");
    let time = T0 + i as u64 - 1;
    let s = signer(secret);
    let rec = if i == 1 {
        // the first message is signed by the code the server uses (Catalog -> TSigResponseContext)
        let mut r = TSigResponseContext::new(request.id, time, s.clone(), prior.to_vec(), None).sign(&unsigned).expect("sign");
        if let Some(mac) = mac_override {
            r = Box::new(make_tsig_record(
                s.signer_name().clone(),
                TSIG::new(TsigAlgorithm::HmacSha256, time, FUDGE, mac, request.id, None, Vec::new()),
            ));
        }
        r
    } else {
        // RFC 8945 5.3.1: later messages are signed over prior MAC | message | time | fudge
        let mut tbs = Vec::new();
        tbs.extend_from_slice(&(prior.len() as u16).to_be_bytes());
        tbs.extend_from_slice(prior);
        tbs.extend_from_slice(&unsigned);
        tbs.extend_from_slice(&time.to_be_bytes()[2..]);
        tbs.extend_from_slice(&FUDGE.to_be_bytes());
        let mac = mac_override.unwrap_or_else(|| hmac(secret, &tbs));
        Box::new(make_tsig_record(
            s.signer_name().clone(),
            TSIG::new(TsigAlgorithm::HmacSha256, time, FUDGE, mac, request.id, None, Vec::new()),
        ))
    };
    let mac = rec.data.mac.clone();
    m.set_signature(rec);
    let bytes = m.to_vec().expect("encode signed");
    let key_name_len = Name::from_str(KEY_NAME).unwrap().iter().map(|l| l.len() + 1).sum::<usize>() + 1;
    Built { bytes, mac, tsig_at: unsigned.len(), key_name_len }
}

/// flips one bit that the MAC has to cover: not in the message ID (octets 0-1, replaced by the
/// original ID before the MAC is computed) and not the letter-case bit of the key name
fn flip_bit(b: &Built, rng: &mut StdRng) -> (Vec<u8>, usize) {
    loop {
        let byte = rng.random_range(2..b.bytes.len());
        let bit = rng.random_range(0..8usize);
        let in_key_name = byte >= b.tsig_at && byte < b.tsig_at + b.key_name_len;
        if in_key_name && bit == 5 && b.bytes[byte].is_ascii_alphabetic() {
            continue;
        }
        let mut m = b.bytes.clone();
        m[byte] ^= 1 << bit;
        return (m, byte * 8 + bit);
    }
}

struct Run {
    mux: DnsMultiplexer<Peer>,
    inb: Arc<Mutex<Inbound>>,
    woken: Arc<WakeFlag>,
}

impl Run {
    fn run_mux(&mut self, force: bool) {
        let waker = Waker::from(self.woken.clone());
        let mut cx = Context::from_waker(&waker);
        let mut first = force;
        let mut guard = 0;
        while (first || self.woken.0.swap(false, Ordering::SeqCst)) && guard < 1000 {
            first = false;
            guard += 1;
            self.woken.0.store(false, Ordering::SeqCst);
            match Pin::new(&mut self.mux).poll_next(&mut cx) {
                Poll::Ready(None) => return,
                Poll::Ready(Some(_)) => self.woken.0.store(true, Ordering::SeqCst),
                Poll::Pending => {}
            }
        }
    }
}

/// one case: returns the event
fn one_case(case: &str, scenario: &str, op: &str, plan: &[Kind], inject: bool, rng: &mut StdRng) -> Value {
    let addr: SocketAddr = "192.0.2.53:53".parse().unwrap();
    let inb = Arc::new(Mutex::new(Inbound::default()));
    let (handle, mut out_rx) = BufDnsStreamHandle::new(addr);
    let mux = DnsMultiplexer::new(Peer { inb: inb.clone(), addr }, handle)
        .with_timeout(Duration::from_secs(5))
        .with_signer(signer(KEY));
    let mut run = Run { mux, inb, woken: Arc::new(WakeFlag(AtomicBool::new(false))) };
    run.run_mux(true);

    // the request
    let mut opts = DnsRequestOptions::default();
    opts.use_edns = false;
    let req = if op == "axfr" {
        DnsRequest::from_query(Query::new(origin(), RecordType::AXFR), opts)
    } else {
        let mut m = Message::new(rng.random(), MessageType::Query, OpCode::Update);
        m.add_query(Query::new(origin(), RecordType::SOA));
        m.authorities.push(www(200));
        DnsRequest::new(m, opts)
    };
    let mut rx = run.mux.send_message(req);
    run.run_mux(true);
    let waker = noop_waker();
    let mut cx = Context::from_waker(&waker);
    let on_wire = match out_rx.poll_next_unpin(&mut cx) {
        Poll::Ready(Some(m)) => m.into_parts().0,
        _ => return json!({"ev": "muxreply", "case": case, "scenario": scenario, "op": op, "msgs": [], "note": "nothing on the wire"}),
    };
    let request = Message::from_vec(&on_wire).expect("request parses");
    let Some(req_tsig) = request.signature() else {
        return json!({"ev": "muxreply", "case": case, "scenario": scenario, "op": op, "msgs": [], "note": "request not signed"});
    };
    let request_signed_ok = signer(KEY).verify_message_byte(&on_wire, None, true).is_ok();

    // the reply: a genuine chain, one message of which may be altered or injected on the path
    let n = plan.len();
    let mut prior = req_tsig.data.mac.clone(); // what the next genuine message chains on
    let mut msgs = Vec::new();
    let mut results = Vec::new();
    for (k, kind) in plan.iter().enumerate() {
        let i = k + 1;
        let genuine = build(&request, op, i, n, KEY, &prior, None);
        let (bytes, at) = match kind {
            Kind::Genuine => (genuine.bytes.clone(), 0),
            Kind::BitFlip => flip_bit(&genuine, rng),
            Kind::BadMac => {
                let mac: Vec<u8> = if rng.random_bool(0.5) { vec![0x5a; 32] } else { (0..32).map(|_| rng.random::<u8>()).collect() };
                (build(&request, op, i, n, KEY, &prior, Some(mac)).bytes, 0)
            }
            Kind::OtherKey => (build(&request, op, i, n, OTHER_KEY, &prior, None).bytes, 0),
        };
        // an altered message either replaces the genuine one (the genuine successors chain on a
        // MAC the client never saw) or is injected in front of it (the genuine chain goes on)
        if *kind == Kind::Genuine || !inject {
            prior = genuine.mac.clone();
        }
        msgs.push((kind.name(), at));
        {
            let mut q = run.inb.lock().unwrap();
            q.q.push_back(bytes);
            if let Some(w) = q.waker.take() {
                w.wake();
            }
        }
        run.run_mux(false);
        let mut result = "none";
        let mut detail = String::new();
        loop {
            match rx.poll_next_unpin(&mut cx) {
                Poll::Ready(Some(Ok(resp))) => {
                    result = "ok";
                    detail = format!("{} answers", resp.answers.len());
                }
                Poll::Ready(Some(Err(e))) => {
                    if result != "ok" {
                        result = "err";
                        detail = e.to_string();
                    }
                }
                Poll::Ready(None) => {
                    if result == "none" {
                        detail = "stream ended".into();
                    }
                    break;
                }
                Poll::Pending => break,
            }
        }
        results.push((result, detail));
    }
    json!({"ev": "muxreply", "case": case, "scenario": scenario, "op": op, "inject": inject,
           "request_signed": request_signed_ok,
           "msgs": msgs.iter().zip(results.iter()).map(|((kind, at), (result, detail))|
                json!({"kind": kind, "result": result, "bit": at, "detail": detail})).collect::<Vec<_>>()})
}

pub fn record(seed: u64, n: usize, trace: &mut dyn io::Write, out: &mut dyn io::Write) {
    let mut rng = StdRng::seed_from_u64(seed ^ 0x13_16);
    let forged = [Kind::BitFlip, Kind::BadMac, Kind::OtherKey];
    let mut emit = |ev: Value| {
        writeln!(trace, "{ev}").unwrap();
        writeln!(out, "{}", json!({"case": ev["case"], "scenario": ev["scenario"],
            "results": ev["msgs"].as_array().unwrap().iter().map(|m| format!("{}:{}", m["kind"].as_str().unwrap(), m["result"].as_str().unwrap())).collect::<Vec<_>>()})).unwrap();
    };
    for c in 0..n {
        let op = if c % 2 == 0 { "axfr" } else { "update" };
        // (a) single genuine reply
        emit(one_case(&format!("mt{seed}-{c}-a"), "single-genuine", op, &[Kind::Genuine], false, &mut rng));
        // (b) single reply, altered
        let k = forged[c % 3];
        emit(one_case(&format!("mt{seed}-{c}-b"), &format!("single-{}", k.name()), op, &[k], false, &mut rng));
        // (c) chain of 2-4 genuine messages
        let len = 2 + c % 3;
        emit(one_case(&format!("mt{seed}-{c}-c"), "chain-genuine", "axfr", &vec![Kind::Genuine; len], false, &mut rng));
        // (d) chain whose message k >= 2 has a flipped bit / a garbage MAC; (e) ... was signed with another key
        for (tag, kind) in [("d1", Kind::BitFlip), ("d2", Kind::BadMac), ("e", Kind::OtherKey)] {
            let len = 2 + rng.random_range(0..3usize);
            let pos = rng.random_range(1..len); // 0-based index >= 1
            let mut plan = vec![Kind::Genuine; len];
            plan[pos] = kind;
            let inject = rng.random_bool(0.5);
            emit(one_case(&format!("mt{seed}-{c}-{tag}"), &format!("chain-{}", kind.name()), "axfr", &plan, inject, &mut rng));
        }
    }
}
