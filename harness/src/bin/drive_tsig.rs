//! C13 driver: TSIG-signed UPDATE / AXFR requests against a real `Catalog` over a real
//! `SqliteZoneHandler`, signed with the client-side code (`Message::finalize` + `TSigner`),
//! tampered at byte level, sent through `Catalog::handle_request::<_, SimTime>` (virtual
//! server clock); replies are fed to the `TSigVerifier` returned by `finalize`, genuine and
//! with every single bit flipped.
//!
//! `replay`: request descriptions enumerated by TLC (Gen_Tsig) with `mayEffect`; verdicts out.
//! `record`: corpus of authentic requests x EVERY single-bit flip / byte deletion / insertion,
//!   classified into message regions by an independent wire walker; events for Trace_Tsig.
use std::io::{self, BufRead, Write as _};
use std::net::SocketAddr;
use std::panic::AssertUnwindSafe;
use std::str::FromStr;
use std::sync::atomic::{AtomicU64, Ordering};
use std::sync::Arc;
use std::time::Duration;

use futures_util::{FutureExt, StreamExt};
use hickory_net::runtime::{Time, TokioRuntimeProvider};
use hickory_net::xfer::{BufDnsStreamHandle, Protocol};
use hickory_proto::op::{Message, MessageType, OpCode, Query, UpdateMessage};
use hickory_proto::rr::rdata::tsig::TsigAlgorithm;
use hickory_proto::rr::rdata::{A, NS, SOA};
use hickory_proto::rr::{DNSClass, LowerName, Name, RData, Record, RecordType, RrKey, TSigVerifier, TSigner};
use hickory_server::server::{Request, RequestHandler, ResponseHandle};
use hickory_server::store::in_memory::InMemoryZoneHandler;
use hickory_server::store::sqlite::SqliteZoneHandler;
use hickory_server::zone_handler::{AxfrPolicy, Catalog, ZoneHandler, ZoneType};
use rand::rngs::StdRng;
use rand::{RngExt, SeedableRng};
use serde_json::{json, Value};

static NOW: AtomicU64 = AtomicU64::new(1_800_000_000);

/// The server clock (Catalog::handle_request::<_, T: Time> reads T::current_time()).
#[derive(Clone, Copy)]
struct SimTime;
#[async_trait::async_trait]
impl Time for SimTime {
    async fn delay_for(d: Duration) {
        tokio::time::sleep(d).await
    }
    async fn timeout<F: 'static + std::future::Future + Send>(d: Duration, f: F) -> Result<F::Output, io::Error> {
        tokio::time::timeout(d, f).await.map_err(|_| io::Error::new(io::ErrorKind::TimedOut, "timeout"))
    }
    fn current_time() -> u64 {
        NOW.load(Ordering::SeqCst)
    }
}

const FUDGE: u16 = 300;
fn secret(k: &str) -> Vec<u8> {
    // keys are binary: they may contain any octet, line breaks included
    match k {
        "k1" => b"secret-number-one\n0123456789abcdef".to_vec(),
        "k2" => b"another\rsecret-two-fedcba9876543210".to_vec(),
        _ => b"not-a-configured-secret-zzzzzzzzzzzz".to_vec(),
    }
}
/// the named key cut at its first CR / LF octet
fn secret_prefix(k: &str) -> Vec<u8> {
    let s = secret(k);
    let n = s.iter().position(|b| *b == b'\n' || *b == b'\r').unwrap_or(s.len());
    s[..n].to_vec()
}
fn key_name(k: &str) -> Name {
    Name::from_str(&format!("{k}.keys.")).unwrap()
}
fn signer(name: &str, sec: &str, alg: TsigAlgorithm) -> TSigner {
    TSigner::new(secret(sec), alg, key_name(name), FUDGE).expect("signer")
}

struct World {
    /// the in-memory handler when the catalog serves it directly (store = "memory")
    memory: Option<Arc<InMemoryZoneHandler<TokioRuntimeProvider>>>,
    handler: Arc<SqliteZoneHandler<TokioRuntimeProvider>>,
    catalog: Catalog,
    origin: Name,
}

fn world(allow_update: bool, axfr: &str) -> World {
    world_on(allow_update, axfr, "sqlite")
}

fn world_on(allow_update: bool, axfr: &str, store: &str) -> World {
    let origin = Name::from_str("example.").unwrap();
    let policy = match axfr {
        "deny" => AxfrPolicy::Deny,
        "all" => AxfrPolicy::AllowAll,
        "signed" => AxfrPolicy::AllowSigned,
        o => panic!("axfr policy {o}"),
    };
    // like SqliteZoneHandler::try_from_config: the inner handler allows transfers, the outer applies the policy;
    // a zone served by the in-memory handler alone applies the policy itself
    let inner_policy = if store == "memory" { policy } else { AxfrPolicy::AllowAll };
    let mut mem = InMemoryZoneHandler::<TokioRuntimeProvider>::empty(origin.clone(), ZoneType::Primary, inner_policy, None);
    let ns = Name::from_str("ns.example.").unwrap();
    mem.upsert_mut(Record::from_rdata(origin.clone(), 3600, RData::SOA(SOA::new(ns.clone(), Name::from_str("admin.example.").unwrap(), 1, 3600, 600, 86400, 300))), 1);
    mem.upsert_mut(Record::from_rdata(origin.clone(), 3600, RData::NS(NS(ns.clone()))), 1);
    mem.upsert_mut(Record::from_rdata(ns, 3600, RData::A(A::new(192, 0, 2, 53))), 1);
    if store == "memory" {
        // the handle kept for observation is an (unused) sqlite wrapper around an empty copy; the
        // catalog serves the in-memory handler itself
        let served = Arc::new(mem);
        let mut catalog = Catalog::new();
        catalog.upsert(LowerName::new(&origin), vec![served.clone() as Arc<dyn ZoneHandler>]);
        let shadow = InMemoryZoneHandler::<TokioRuntimeProvider>::empty(origin.clone(), ZoneType::Primary, AxfrPolicy::Deny, None);
        return World { handler: Arc::new(SqliteZoneHandler::new(shadow, AxfrPolicy::Deny, false, false)), catalog, origin, memory: Some(served) };
    }
    let mut h = SqliteZoneHandler::new(mem, policy, allow_update, false);
    h.set_tsig_signers(vec![signer("k1", "k1", TsigAlgorithm::HmacSha256), signer("k2", "k2", TsigAlgorithm::HmacSha256)]);
    let handler = Arc::new(h);
    let mut catalog = Catalog::new();
    catalog.upsert(LowerName::new(&origin), vec![handler.clone() as Arc<dyn ZoneHandler>]);
    World { handler, catalog, origin, memory: None }
}

/// the zone as `named` loads it: `SqliteZoneHandler::try_from_config` from a zone file, keys from key
/// files; `restart`: the handler is dropped and loaded a second time, now from the journal of the first run
async fn world_from_config(allow_update: bool, axfr: &str, restart: bool, dir: &std::path::Path, tag: &str) -> World {
    use hickory_server::store::sqlite::{SqliteConfig, TsigKeyConfig};
    let origin = Name::from_str("example.").unwrap();
    let policy = match axfr {
        "deny" => AxfrPolicy::Deny,
        "all" => AxfrPolicy::AllowAll,
        "signed" => AxfrPolicy::AllowSigned,
        o => panic!("axfr policy {o}"),
    };
    std::fs::create_dir_all(dir).unwrap();
    let zone_path = dir.join(format!("{tag}.zone"));
    let journal_path = dir.join(format!("{tag}.jrnl"));
    let _ = std::fs::remove_file(&journal_path);
    std::fs::write(
        &zone_path,
        "@ 3600 IN SOA ns.example. admin.example. 1 3600 600 86400 300\n@ 3600 IN NS ns.example.\nns 3600 IN A 192.0.2.53\n",
    )
    .unwrap();
    let mut keys = Vec::new();
    for k in ["k1", "k2"] {
        let kf = dir.join(format!("{tag}.{k}.key"));
        std::fs::write(&kf, secret(k)).unwrap();
        keys.push(TsigKeyConfig { name: key_name(k).to_string(), key_file: kf, algorithm: TsigAlgorithm::HmacSha256, fudge: FUDGE });
    }
    let cfg = SqliteConfig { zone_path, journal_path, allow_update, tsig_keys: keys };
    let mut handler = None;
    for _ in 0..(if restart { 2 } else { 1 }) {
        drop(handler.take());
        let h: SqliteZoneHandler<TokioRuntimeProvider> =
            SqliteZoneHandler::try_from_config(origin.clone(), ZoneType::Primary, policy, false, None, &cfg, None).await.expect("try_from_config");
        handler = Some(h);
    }
    let handler = Arc::new(handler.unwrap());
    let mut catalog = Catalog::new();
    catalog.upsert(LowerName::new(&origin), vec![handler.clone() as Arc<dyn ZoneHandler>]);
    World { handler, catalog, origin, memory: None }
}

// ------------------------------------------------------------------------------------------
// independent wire walker (no hickory code): offsets of the parts of a message

#[derive(Debug, Default, Clone)]
struct Layout {
    qd_end: usize,
    /// (start, rdata_start, end) of every record after the question section
    recs: Vec<(usize, usize, usize)>,
}

fn skip_name(b: &[u8], mut i: usize) -> Option<usize> {
    loop {
        let l = *b.get(i)? as usize;
        if l == 0 {
            return Some(i + 1);
        }
        if l & 0xC0 == 0xC0 {
            b.get(i + 1)?;
            return Some(i + 2);
        }
        if l & 0xC0 != 0 {
            return None;
        }
        i += 1 + l;
    }
}

fn walk(b: &[u8]) -> Option<Layout> {
    if b.len() < 12 {
        return None;
    }
    let c = |i: usize| u16::from_be_bytes([b[i], b[i + 1]]) as usize;
    let mut i = 12;
    for _ in 0..c(4) {
        i = skip_name(b, i)? + 4;
    }
    let mut l = Layout { qd_end: i, recs: Vec::new() };
    for _ in 0..(c(6) + c(8) + c(10)) {
        let start = i;
        let n = skip_name(b, i)?;
        if n + 10 > b.len() {
            return None;
        }
        let rdlen = u16::from_be_bytes([b[n + 8], b[n + 9]]) as usize;
        let end = n + 10 + rdlen;
        if end > b.len() {
            return None;
        }
        l.recs.push((start, n + 10, end));
        i = end;
    }
    Some(l)
}

/// offsets inside the TSIG RDATA (the last record): (alg_end, time, fudge, macsize, mac, origid, error, otherlen)
fn tsig_fields(b: &[u8], rdata: usize) -> Option<(usize, usize, usize, usize, usize, usize, usize)> {
    let a = skip_name(b, rdata)?;
    let time = a;
    let fudge = a + 6;
    let macsize = a + 8;
    let mlen = u16::from_be_bytes([*b.get(macsize)?, *b.get(macsize + 1)?]) as usize;
    let mac = a + 10;
    let origid = mac + mlen;
    let error = origid + 2;
    let otherlen = error + 2;
    b.get(otherlen + 1)?;
    Some((time, fudge, macsize, mac, origid, error, otherlen))
}

/// which part of an authentic signed request byte offset `o` lies in
fn region(b: &[u8], l: &Layout, o: usize) -> String {
    if o < 2 {
        return "msgId".into();
    }
    if o < 4 {
        return "flags".into();
    }
    if o < 12 {
        return "count".into();
    }
    if o < l.qd_end {
        return "zone".into();
    }
    let n = l.recs.len();
    for (k, (s, rd, e)) in l.recs.iter().enumerate() {
        if o >= *s && o < *e {
            if k + 1 < n {
                return format!("record{k}");
            }
            if o < *rd {
                // owner name (key name) | type | class | ttl | rdlength
                let name_end = rd - 10;
                return if o < name_end {
                    "tsigName"
                } else if o < name_end + 2 {
                    "tsigType"
                } else if o < name_end + 4 {
                    "tsigClass"
                } else if o < name_end + 8 {
                    "tsigTtl"
                } else {
                    "tsigRdlen"
                }
                .into();
            }
            if let Some((time, fudge, macsize, mac, origid, error, otherlen)) = tsig_fields(b, *rd) {
                return if o < time {
                    "tsigAlg"
                } else if o < fudge {
                    "tsigTime"
                } else if o < macsize {
                    "tsigFudge"
                } else if o < mac {
                    "tsigMacSize"
                } else if o < origid {
                    "macBit"
                } else if o < error {
                    "tsigOrigId"
                } else if o < otherlen {
                    "tsigError"
                } else {
                    "tsigOther"
                }
                .into();
            }
            return "tsigRR".into();
        }
    }
    "appended".into()
}

// ------------------------------------------------------------------------------------------

struct Built {
    bytes: Vec<u8>,
    verifier: Option<TSigVerifier>,
    /// for updates: the owner of the record the request adds
    marker: Option<Name>,
}

fn build(op: &str, r: &Value, origin: &Name, uniq: u32) -> Built {
    let id = (uniq as u16).wrapping_mul(7).wrapping_add(11);
    let (mut msg, marker) = if op == "update" {
        let mut m = Message::new(id, MessageType::Query, OpCode::Update);
        let mut q = Query::new(origin.clone(), RecordType::SOA);
        q.set_query_class(DNSClass::IN);
        m.add_zone(q);
        // prerequisite "RRset exists (value independent)": apex NS, class ANY, no RDATA
        let mut pre = Record::update0(origin.clone(), 0, RecordType::NS).into_record_of_rdata();
        pre.dns_class = DNSClass::ANY;
        m.add_pre_requisite(pre);
        let owner = Name::from_str(&format!("h{uniq}.example.")).unwrap();
        m.add_update(Record::from_rdata(owner.clone(), 300, RData::A(A::new(10, (uniq >> 16) as u8, (uniq >> 8) as u8, uniq as u8 & 0xFE))));
        (m, Some(owner))
    } else {
        let mut m = Message::new(id, MessageType::Query, OpCode::Query);
        if op == "ixfr" {
            // RFC 1995: the client's current SOA travels in the authority section
            m.add_query(Query::new(origin.clone(), RecordType::IXFR));
            let ns = Name::from_str("ns.example.").unwrap();
            m.add_authority(Record::from_rdata(origin.clone(), 3600, RData::SOA(SOA::new(ns, Name::from_str("admin.example.").unwrap(), 0, 3600, 600, 86400, 300))));
        } else {
            m.add_query(Query::new(origin.clone(), RecordType::AXFR));
        }
        (m, None)
    };
    // header bits the sender set before signing (covered by the MAC like everything else)
    match r["hdr"].as_str().unwrap_or("plain") {
        "plain" => {}
        "rd" => msg.metadata.recursion_desired = true,
        "cd" => msg.metadata.checking_disabled = true,
        "rdcd" => {
            msg.metadata.recursion_desired = true;
            msg.metadata.checking_disabled = true;
        }
        h => panic!("hdr {h}"),
    }
    let mut verifier = None;
    if r["signed"].as_bool().unwrap() {
        let alg = if r["alg"] == "cfg" { TsigAlgorithm::HmacSha256 } else { TsigAlgorithm::HmacSha512 };
        let s = if let Some(rf) = r["rfudge"].as_u64().filter(|f| *f != FUDGE as u64) {
            // the sender states a smaller fudge than the server's configuration knows
            TSigner::new(secret(r["macKey"].as_str().unwrap()), alg, key_name(r["keyName"].as_str().unwrap()), rf as u16).expect("signer")
        } else if r["macKey"] == "kprefix" {
            TSigner::new(secret_prefix(r["keyName"].as_str().unwrap()), alg, key_name(r["keyName"].as_str().unwrap()), FUDGE).expect("signer")
        } else {
            signer(r["keyName"].as_str().unwrap(), r["macKey"].as_str().unwrap(), alg)
        };
        let t = (NOW.load(Ordering::SeqCst) as i64 + r["dt"].as_i64().unwrap()) as u64;
        verifier = msg.finalize(&s, t).expect("finalize");
    }
    let mut bytes = msg.to_vec().expect("encode");
    let l = walk(&bytes).expect("walker must parse what hickory encoded");
    if r["signed"].as_bool().unwrap() && r["macLen"] == "trunc" {
        // keep a 16-byte prefix of the genuine MAC; fix MAC size and RDLENGTH
        let (_, rd, _) = *l.recs.last().unwrap();
        let (_, _, macsize, mac, origid, _, _) = tsig_fields(&bytes, rd).unwrap();
        let mlen = origid - mac;
        let cut = mlen - 16;
        bytes.drain(mac + 16..origid);
        bytes[macsize..macsize + 2].copy_from_slice(&16u16.to_be_bytes());
        let rdlen = u16::from_be_bytes([bytes[rd - 2], bytes[rd - 1]]) - cut as u16;
        bytes[rd - 2..rd].copy_from_slice(&rdlen.to_be_bytes());
    }
    let l = walk(&bytes).expect("walker");
    let tamper = r["tamper"].as_str().unwrap();
    let tsig_off = |bytes: &Vec<u8>| {
        let (_, rd, _) = *l.recs.last().unwrap();
        tsig_fields(bytes, rd).unwrap()
    };
    match tamper {
        "none" => {}
        "msgId" => bytes[0] ^= 0x40,
        "flags" => bytes[2] ^= 0x01, // RD
        "appended" => bytes.extend_from_slice(&[0, 1, 2, 3]),
        "zone" => bytes[13] ^= 0x20, // letter case of the first octet of the zone / query name
        "count" => {
            // move one record from the update section to the prerequisite section
            let pr = u16::from_be_bytes([bytes[6], bytes[7]]) + 1;
            let up = u16::from_be_bytes([bytes[8], bytes[9]]) - 1;
            bytes[6..8].copy_from_slice(&pr.to_be_bytes());
            bytes[8..10].copy_from_slice(&up.to_be_bytes());
        }
        "prereq" => {
            // NS (2) -> SOA (6): "apex SOA RRset exists" holds as well, only the MAC protects it
            let (_, rd, _) = l.recs[0];
            assert_eq!(bytes[rd - 9], 2);
            bytes[rd - 9] ^= 0x04;
        }
        "update" => {
            // last octet of the added address: a different, equally valid record
            let (_, _, e) = l.recs[1];
            bytes[e - 1] ^= 0x01;
        }
        "tsigTime" => {
            let f = tsig_off(&bytes);
            bytes[f.0 + 5] ^= 0x01;
        }
        "tsigFudge" => {
            let f = tsig_off(&bytes);
            bytes[f.1 + 1] ^= 0x01;
        }
        "tsigOrigId" => {
            let f = tsig_off(&bytes);
            bytes[f.4 + 1] ^= 0x01;
        }
        "tsigError" => {
            let f = tsig_off(&bytes);
            bytes[f.5 + 1] ^= 0x10;
        }
        "tsigOther" => {
            let f = tsig_off(&bytes);
            let (_, rd, _) = *l.recs.last().unwrap();
            bytes[f.6 + 1] = 1;
            bytes.push(0x7F);
            let rdlen = u16::from_be_bytes([bytes[rd - 2], bytes[rd - 1]]) + 1;
            bytes[rd - 2..rd].copy_from_slice(&rdlen.to_be_bytes());
        }
        "macBit" => {
            let f = tsig_off(&bytes);
            bytes[f.3] ^= 0x80;
        }
        t => panic!("tamper {t}"),
    }
    Built { bytes, verifier, marker }
}

struct Outcome {
    effect: bool,
    rcode: String,
    reply: Option<Vec<u8>>,
    note: String,
}

async fn serial_and_has(w: &World, marker: Option<&Name>) -> (u32, bool) {
    if let Some(m) = &w.memory {
        let serial = m.serial().await;
        let has = match marker {
            Some(n) => m.records().await.contains_key(&RrKey::new(LowerName::new(n), RecordType::A)),
            None => false,
        };
        return (serial, has);
    }
    let serial = w.handler.serial().await;
    let has = match marker {
        Some(n) => w.handler.records().await.contains_key(&RrKey::new(LowerName::new(n), RecordType::A)),
        None => false,
    };
    (serial, has)
}

async fn send(w: &World, op: &str, bytes: Vec<u8>, marker: Option<&Name>) -> Outcome {
    let src: SocketAddr = "192.0.2.9:4000".parse().unwrap();
    let before = serial_and_has(w, marker).await;
    let request = match Request::from_bytes(bytes, src, Protocol::Tcp) {
        Ok(r) => r,
        Err(e) => return Outcome { effect: false, rcode: "NOPARSE".into(), reply: None, note: e.to_string() },
    };
    let is_transfer = matches!(request.queries.query_type(), RecordType::AXFR | RecordType::IXFR);
    let (handle, mut rx) = BufDnsStreamHandle::new(src);
    let rh = ResponseHandle::new(src, handle, Protocol::Tcp);
    let fut = w.catalog.handle_request::<ResponseHandle, SimTime>(&request, rh);
    if let Err(_p) = AssertUnwindSafe(fut).catch_unwind().await {
        let after = serial_and_has(w, marker).await;
        return Outcome { effect: after != before, rcode: "PANIC".into(), reply: None, note: "panic in handle_request".into() };
    }
    let after = serial_and_has(w, marker).await;
    let reply = match rx.next().now_or_never() {
        Some(Some(sm)) => Some(sm.into_parts().0),
        _ => None,
    };
    let (rcode, answers) = match reply.as_deref().map(Message::from_vec) {
        Some(Ok(m)) => (format!("{}", m.metadata.response_code), m.answers.len()),
        Some(Err(_)) => ("REPLY-UNPARSEABLE".into(), 0),
        None => ("NOREPLY".into(), 0),
    };
    // "returns zone data": records in the answer to a request that (still) is a zone transfer; a mutation
    // that turns the question into an ordinary query (IXFR 251 -> ANY 255) is outside the property
    let effect = if op == "update" { after != before } else { is_transfer && answers > 0 };
    Outcome { effect, rcode, reply, note: String::new() }
}

/// does the reply end with a TSIG record that carries a MAC (independent walker)?
fn mac_present(reply: &[u8]) -> bool {
    let Some(l) = walk(reply) else { return false };
    let Some((_, rd, _)) = l.recs.last().copied() else { return false };
    if rd < 10 || u16::from_be_bytes([reply[rd - 10], reply[rd - 9]]) != 250 {
        return false;
    }
    match tsig_fields(reply, rd) {
        Some((_, _, macsize, _, _, _, _)) => u16::from_be_bytes([reply[macsize], reply[macsize + 1]]) > 0,
        None => false,
    }
}

/// reply obligations: carries a TSIG, the client verifier accepts it, no modified copy is accepted
fn check_reply(reply: &[u8], verifier: &mut TSigVerifier, max_flips: usize) -> Value {
    let signed = Message::from_vec(reply).map(|m| m.signature.is_some()).unwrap_or(false);
    let mut tried = 0;
    let mut accepted = Vec::new();
    let nbits = (reply.len() - 2) * 8;
    let step = (nbits / max_flips.max(1)).max(1);
    // modified copies first: a failed verification leaves the verifier unchanged
    let mut bit = 0;
    let layout = walk(reply);
    while bit < nbits {
        // the letter case of the key name is digested in canonical form: not a covered bit
        let byte = 2 + bit / 8;
        if let Some(l) = layout.as_ref() {
            if bit % 8 == 5 && reply[byte].is_ascii_alphabetic() && region(reply, l, byte) == "tsigName" {
                bit += step;
                continue;
            }
        }
        let mut m = reply.to_vec();
        m[2 + bit / 8] ^= 1 << (bit % 8);
        tried += 1;
        if verifier.verify(&m).is_ok() {
            accepted.push(16 + bit);
            break; // the verifier state has moved on; stop here
        }
        bit += step;
    }
    let verifies = accepted.is_empty() && verifier.verify(reply).is_ok();
    json!({"signed": signed, "verifies": verifies || !accepted.is_empty(), "modifiedTried": tried, "modifiedAccepted": accepted.len(), "acceptedBit": accepted})
}

fn main() {
    let args: Vec<String> = std::env::args().collect();
    let mode = args.get(1).map(String::as_str).unwrap_or("");
    let mut trace_path = None;
    let mut n_cases = 20usize;
    let mut seed = vh::util::seed_from_env();
    let mut i = 2;
    while i < args.len() {
        let v = args.get(i + 1).cloned().unwrap_or_default();
        match args[i].as_str() {
            "--trace" => trace_path = Some(v),
            "--n" => n_cases = v.parse().unwrap(),
            "--seed" => seed = v.parse().unwrap(),
            _ => {
                i += 1;
                continue;
            }
        }
        i += 2;
    }
    let mut trace: Box<dyn io::Write> = match &trace_path {
        Some(p) => Box::new(io::BufWriter::new(std::fs::File::create(p).unwrap())),
        None => Box::new(io::sink()),
    };
    let stdout = io::stdout();
    let mut out = io::BufWriter::new(stdout.lock());
    std::panic::set_hook(Box::new(|_| {}));
    let rt = tokio::runtime::Builder::new_current_thread().enable_all().build().unwrap();

    match mode {
        "replay" => rt.block_on(async {
            let scratch = std::env::temp_dir().join(format!("verif-tsig-{}", std::process::id()));
            let mut worlds: std::collections::HashMap<String, World> = Default::default();
            let mut uniq = 0u32;
            for (ln, line) in io::stdin().lock().lines().enumerate() {
                let line = line.unwrap();
                if line.trim().is_empty() {
                    continue;
                }
                let c: Value = serde_json::from_str(&line).expect("case");
                let (r, p) = (&c["r"], &c["p"]);
                let store = p["store"].as_str().unwrap_or("sqlite");
                let start = p["start"].as_str().unwrap_or("direct");
                let key = format!("{}-{}-{}-{}", p["allowUpdate"], p["axfr"], store, start);
                if !worlds.contains_key(&key) {
                    let (au, ax) = (p["allowUpdate"].as_bool().unwrap(), p["axfr"].as_str().unwrap());
                    let w = if store == "sqlite" && start != "direct" {
                        world_from_config(au, ax, start == "restart", &scratch, &key.replace('"', "")).await
                    } else {
                        world_on(au, ax, store)
                    };
                    worlds.insert(key.clone(), w);
                }
                let w = worlds.get_mut(&key).unwrap();
                uniq += 1;
                let op = r["op"].as_str().unwrap();
                let mut b = build(op, r, &w.origin, uniq);
                let o = send(w, op, b.bytes.clone(), b.marker.as_ref()).await;
                let may = c["mayEffect"].as_bool().unwrap();
                let honoured = c["honoured"].as_bool().unwrap();
                let mut reply_obs = Value::Null;
                if o.effect && r["signed"].as_bool().unwrap() && c["authentic"].as_bool().unwrap() {
                    if let (Some(reply), Some(v)) = (o.reply.as_ref(), b.verifier.as_mut()) {
                        reply_obs = check_reply(reply, v, 4000);
                    } else {
                        reply_obs = json!({"signed": false, "verifies": false, "modifiedTried": 0, "modifiedAccepted": 0});
                    }
                }
                let mut class = Value::Null;
                let mut ok = true;
                if honoured && !o.effect {
                    ok = false;
                    class = json!("authentic-request-refused");
                } else if o.effect && !may {
                    ok = false;
                    class = json!(format!("effect-without-valid-tsig:{}", r["tamper"].as_str().unwrap()));
                } else if o.rcode == "PANIC" {
                    ok = false;
                    class = json!("panic");
                } else if !reply_obs.is_null() && c["mustSignReply"].as_bool().unwrap() {
                    if reply_obs["signed"] != true || reply_obs["verifies"] != true {
                        ok = false;
                        class = json!("reply-not-verifiable");
                    } else if reply_obs["modifiedAccepted"].as_u64().unwrap() > 0 {
                        ok = false;
                        class = json!("modified-reply-accepted");
                    }
                }
                // RFC 8945 5.3.2: whether the reply carries a MAC at all is observed for every request
                let mut reply_ev = if reply_obs.is_null() { json!({}) } else { reply_obs.clone() };
                if let Some(rb) = o.reply.as_ref() {
                    reply_ev["macPresent"] = json!(mac_present(rb));
                    if mac_present(rb) && !c["verified"].as_bool().unwrap_or(true) && ok {
                        ok = false;
                        class = json!("reply-signed-for-unverified-request");
                    }
                }
                let ev = json!({"ev":"req","case":format!("g{ln}"),"r":r,"p":p,"effect":o.effect,"rcode":o.rcode,"reply": reply_ev});
                writeln!(trace, "{ev}").unwrap();
                writeln!(out, "{}", json!({"case": ln, "ok": ok, "class": class, "effect": o.effect, "rcode": o.rcode, "honoured": honoured,
                    "mayEffect": may, "reply": reply_obs, "note": o.note, "input": {"r": r, "p": p}})).unwrap();
            }
            drop(worlds);
            let _ = std::fs::remove_dir_all(&scratch);
        }),
        "record" => rt.block_on(async {
            let mut rng = StdRng::seed_from_u64(seed);
            let mut uniq = 1_000_000u32;
            for case in 0..n_cases {
                let op = match case % 4 {
                    2 => "axfr",
                    3 => "ixfr",
                    _ => "update",
                };
                let p = json!({"allowUpdate": true, "axfr": "signed", "fudge": FUDGE, "store": "sqlite"});
                let mut w = world(true, "signed");
                let kn = if rng.random_bool(0.5) { "k1" } else { "k2" };
                let dt: i64 = rng.random_range(-(FUDGE as i64 - 1)..=(FUDGE as i64 - 1));
                let base = json!({"op": op, "signed": true, "keyName": kn, "macKey": kn, "alg": "cfg", "macLen": "full", "dt": dt, "tamper": "none",
                    "hdr": (["plain", "rd", "cd", "rdcd"][(case / 4) % 4])});
                uniq += 1;
                let genuine = build(op, &base, &w.origin, uniq);
                let l = walk(&genuine.bytes).unwrap();
                let nbits = genuine.bytes.len() * 8;
                let emit = |trace: &mut dyn io::Write, kind: &str, at: usize, reg: String, o: &Outcome| {
                    let mut r = base.clone();
                    r["tamper"] = json!(reg);
                    writeln!(trace, "{}", json!({"ev":"req","case":format!("s{seed}-{case}-{kind}{at}"),"r":r,"p":p,"effect":o.effect,"rcode":o.rcode,
                        "reply": o.reply.as_ref().map(|b| json!({"macPresent": mac_present(b)})).unwrap_or(json!({})),"mut":kind,"at":at})).unwrap();
                };
                // every single-bit flip
                for bit in 0..nbits {
                    let mut b = genuine.bytes.clone();
                    b[bit / 8] ^= 1 << (bit % 8);
                    let mut reg = region(&genuine.bytes, &l, bit / 8);
                    if reg == "tsigName" && bit % 8 == 5 && genuine.bytes[bit / 8].is_ascii_alphabetic() {
                        reg = "tsigNameCase".into();
                    }
                    let o = send(&w, op, b, genuine.marker.as_ref()).await;
                    emit(&mut trace, "flip", bit, reg, &o);
                    if o.effect {
                        w = world(true, "signed"); // start every variant from the untouched zone
                    }
                }
                // every single-byte deletion and insertion
                for at in 0..genuine.bytes.len() {
                    let mut b = genuine.bytes.clone();
                    b.remove(at);
                    let reg = match region(&genuine.bytes, &l, at).as_str() {
                        "msgId" => "msgIdShift".to_string(), // removing an ID byte shifts the whole message
                        r => r.to_string(),
                    };
                    let o = send(&w, op, b, genuine.marker.as_ref()).await;
                    emit(&mut trace, "del", at, reg.clone(), &o);
                    if o.effect {
                        w = world(true, "signed");
                    }
                    let mut b = genuine.bytes.clone();
                    b.insert(at, rng.random());
                    // inserting a copy of the octet that starts a run reaching the end of the message
                    // (the zero octets of TSIG error / other length) IS the genuine message plus one
                    // trailing octet
                    let reg = if b.starts_with(&genuine.bytes) { "appended".to_string() } else { reg };
                    let o = send(&w, op, b, genuine.marker.as_ref()).await;
                    emit(&mut trace, "ins", at, reg, &o);
                    if o.effect {
                        w = world(true, "signed");
                    }
                }
                // finally the genuine request itself (must still be fresh: nothing above may have applied it)
                let mut g = genuine;
                let o = send(&w, op, g.bytes.clone(), g.marker.as_ref()).await;
                let reply_obs = match (o.reply.as_ref(), g.verifier.as_mut()) {
                    (Some(reply), Some(v)) if o.effect => check_reply(reply, v, 100_000),
                    _ => json!({}),
                };
                writeln!(trace, "{}", json!({"ev":"req","case":format!("s{seed}-{case}-genuine"),"r":base,"p":p,"effect":o.effect,"rcode":o.rcode,"reply":reply_obs,"mut":"none","at":0})).unwrap();
                writeln!(out, "{}", json!({"case": case, "op": op, "bits": nbits, "genuine_effect": o.effect})).unwrap();
            }
        }),
        _ => {
            eprintln!("usage: drive_tsig replay|record [--trace f] [--n N] [--seed S]");
            std::process::exit(2);
        }
    }
    trace.flush().unwrap();
}
