//! Shared by drive_nsec (C08) and drive_nsec3 (C09): concretisation of abstract names / zones,
//! an in-process signed authoritative server (real `InMemoryZoneHandler` + `Catalog`), a capture
//! `ResponseHandler`, a `DnsHandle` that feeds `DnssecDnsHandle` from that catalog, and the
//! projection of responses back to the abstract alphabet.  No expected values are computed here.
#![allow(dead_code)]
use std::collections::BTreeMap;
use std::pin::Pin;
use std::sync::{Arc, Mutex};
use std::time::Duration;

use futures_util::stream::{self, Stream};
use hickory_net::runtime::{TokioRuntimeProvider, TokioTime};
use hickory_net::xfer::Protocol;
use hickory_net::{DnsHandle, NetError};
use hickory_proto::dnssec::crypto::Ed25519SigningKey;
use hickory_proto::dnssec::rdata::{DNSKEY, DNSSECRData, DS};
use hickory_proto::dnssec::{Algorithm, DigestType, DnssecSigner, PublicKeyBuf, SigningKey};
use hickory_proto::op::{DnsRequest, DnsResponse, Edns, Message, Query, ResponseCode};
use hickory_proto::rr::rdata::{A, CNAME, NS, SOA, TXT};
use hickory_proto::rr::{Name, RData, Record, RecordType};
use hickory_proto::serialize::binary::BinEncoder;
use hickory_server::dnssec::NxProofKind;
use hickory_server::server::{Request, RequestHandler, ResponseHandler, ResponseInfo};
use hickory_server::store::in_memory::InMemoryZoneHandler;
use hickory_server::zone_handler::{AxfrPolicy, Catalog, MessageResponse, ZoneType};
use serde_json::{json, Value};

// ---------------------------------------------------------------------------------------
// names and types

pub fn name_from_json(v: &Value) -> Name {
    let labels: Vec<Vec<u8>> = v
        .as_array()
        .expect("name array")
        .iter()
        .map(|l| l.as_array().expect("label array").iter().map(|b| b.as_u64().unwrap() as u8).collect())
        .collect();
    let mut n = Name::from_labels(labels).expect("valid name");
    n.set_fqdn(true);
    n
}

pub fn name_to_json(n: &Name) -> Value {
    Value::Array(n.iter().map(|l| json!(l.to_vec())).collect())
}

pub fn rtype_from_str(s: &str) -> RecordType {
    match s {
        "A" => RecordType::A,
        "NS" => RecordType::NS,
        "DS" => RecordType::DS,
        "CNAME" => RecordType::CNAME,
        "TXT" => RecordType::TXT,
        "SOA" => RecordType::SOA,
        "DNAME" => RecordType::Unknown(39),
        "MX" => RecordType::MX,
        "AAAA" => RecordType::AAAA,
        "DNSKEY" => RecordType::DNSKEY,
        "NSEC" => RecordType::NSEC,
        "RRSIG" => RecordType::RRSIG,
        "NSEC3PARAM" => RecordType::NSEC3PARAM,
        other => panic!("unknown type mnemonic {other}"),
    }
}

/// Type mnemonic of the abstract alphabet; anything else is carried as "TYPEnnn".
pub fn rtype_to_str(t: RecordType) -> String {
    match t {
        RecordType::A => "A".into(),
        RecordType::NS => "NS".into(),
        RecordType::DS => "DS".into(),
        RecordType::CNAME => "CNAME".into(),
        RecordType::TXT => "TXT".into(),
        RecordType::SOA => "SOA".into(),
        RecordType::MX => "MX".into(),
        RecordType::AAAA => "AAAA".into(),
        RecordType::DNSKEY => "DNSKEY".into(),
        RecordType::NSEC => "NSEC".into(),
        RecordType::RRSIG => "RRSIG".into(),
        RecordType::NSEC3PARAM => "NSEC3PARAM".into(),
        other => {
            let code: u16 = other.into();
            if code == 39 {
                "DNAME".into()
            } else {
                format!("TYPE{code}")
            }
        }
    }
}

/// The bitmap as the specification sees it: the RRSIG and NSEC bits are not represented
/// (RFC 4035 5.4: a validator MUST ignore them).
pub fn types_to_json(types: impl Iterator<Item = RecordType>) -> Value {
    let mut v: Vec<String> = types
        .filter(|t| *t != RecordType::RRSIG && *t != RecordType::NSEC)
        .map(rtype_to_str)
        .collect();
    v.sort();
    v.dedup();
    json!(v)
}

pub fn rdata_for(t: RecordType) -> RData {
    match t {
        RecordType::A => RData::A(A::new(192, 0, 2, 1)),
        RecordType::NS => RData::NS(NS(Name::from_ascii("ns.invalid.").unwrap())),
        RecordType::CNAME => RData::CNAME(CNAME(Name::from_ascii("target.invalid.").unwrap())),
        RecordType::TXT => RData::TXT(TXT::new(vec!["x".to_string()])),
        RecordType::DS => RData::DNSSEC(DNSSECRData::DS(DS::new(
            12345,
            Algorithm::ED25519,
            DigestType::SHA256,
            vec![0xAB; 32],
        ))),
        other => panic!("no rdata recipe for {other}"),
    }
}

// ---------------------------------------------------------------------------------------
// zones

#[derive(Clone, Debug)]
pub struct ZoneSpec {
    pub apex: Name,
    /// owner -> type mnemonics; the apex entry (SOA, NS) is implied and ignored here
    pub owners: Vec<(Name, Vec<String>)>,
}

impl ZoneSpec {
    pub fn from_json(apex: &Value, zone: &Value) -> Self {
        let apex = name_from_json(apex);
        let mut owners = Vec::new();
        for e in zone.as_array().expect("zone array") {
            let n = name_from_json(&e["n"]);
            let ty: Vec<String> = e["ty"].as_array().unwrap().iter().map(|t| t.as_str().unwrap().to_string()).collect();
            owners.push((n, ty));
        }
        owners.sort();
        Self { apex, owners }
    }

    pub fn to_json(&self) -> Value {
        Value::Array(
            self.owners
                .iter()
                .map(|(n, ty)| json!({"n": name_to_json(n), "ty": ty}))
                .collect(),
        )
    }

    pub fn key(&self) -> String {
        self.to_json().to_string()
    }
}

pub struct SignedZone {
    pub catalog: Arc<Catalog>,
    pub public_key: PublicKeyBuf,
    /// the zone itself, for the audit of the chain it publishes
    pub handler: Arc<InMemoryZoneHandler<TokioRuntimeProvider>>,
}

/// Every record of the given type the signed zone publishes (what an AXFR would carry), RRSIGs left out.
pub async fn published(z: &SignedZone, rtype: RecordType) -> Vec<Record> {
    let records = z.handler.records().await;
    records
        .values()
        .filter(|set| set.record_type() == rtype)
        .flat_map(|set| set.records_without_rrsigs().cloned().collect::<Vec<_>>())
        .collect()
}

/// Owner names of a zone and all their ancestors down to the apex: every name a denial chain of the
/// zone may have an entry for.
pub fn chain_name_candidates(spec: &ZoneSpec) -> Vec<Name> {
    let mut out = std::collections::BTreeSet::new();
    out.insert(spec.apex.clone());
    for (n, _) in &spec.owners {
        let mut a = n.clone();
        while spec.apex.zone_of(&a) && a != spec.apex {
            out.insert(a.clone());
            a = a.base_name();
        }
    }
    out.into_iter().collect()
}

pub fn new_key() -> Box<dyn SigningKey> {
    Box::new(Ed25519SigningKey::from_pkcs8(&Ed25519SigningKey::generate_pkcs8().unwrap()).unwrap())
}

/// Loads the zone into a real `InMemoryZoneHandler`, signs it (NSEC or NSEC3 chain generated by
/// hickory-dns) and puts it into a `Catalog`.
pub fn build_signed_zone(spec: &ZoneSpec, nx: NxProofKind) -> SignedZone {
    build_signed_zone_with(spec, nx, false)
}

/// Where a (non-wildcard) alias of the zone points if aliases are to stay inside the zone: an
/// authoritative host of the zone (owns an A RRset, is no wildcard, does not sit at or below a
/// delegation).  Which one -- fewer, as many or more labels than the alias -- depends on the alias
/// name only.  `None`: no such host, the alias points out of the zone.
pub fn in_zone_cname_target(spec: &ZoneSpec, alias: &Name) -> Option<Name> {
    if alias.is_wildcard() {
        return None;
    }
    let cuts: Vec<&Name> = spec.owners.iter().filter(|(_, ty)| ty.iter().any(|t| t == "NS")).map(|(n, _)| n).collect();
    let mut cands: Vec<&Name> = spec
        .owners
        .iter()
        .filter(|(n, ty)| n != alias && !n.is_wildcard() && ty.iter().any(|t| t == "A") && !ty.iter().any(|t| t == "CNAME"))
        .filter(|(n, _)| !cuts.iter().any(|c| c.zone_of(n)))
        .map(|(n, _)| n)
        .collect();
    if cands.is_empty() {
        return None;
    }
    cands.sort();
    let h: usize = alias.iter().flat_map(|l| l.iter()).map(|b| *b as usize).sum();
    Some(cands[h % cands.len()].clone())
}

/// As `build_signed_zone`; with `in_zone_cnames` a CNAME of the zone points at a host of the same
/// zone (see `in_zone_cname_target`) instead of at `target.invalid.`.
pub fn build_signed_zone_with(spec: &ZoneSpec, nx: NxProofKind, in_zone_cnames: bool) -> SignedZone {
    const SERIAL: u32 = 1000;
    const TTL: u32 = 3600;
    let origin = spec.apex.clone();
    let mut handler =
        InMemoryZoneHandler::<TokioRuntimeProvider>::empty(origin.clone(), ZoneType::Primary, AxfrPolicy::Deny, Some(nx));
    let ok = handler.upsert_mut(
        Record::from_rdata(
            origin.clone(),
            TTL,
            RData::SOA(SOA::new(
                Name::from_ascii("ns.invalid.").unwrap(),
                Name::from_ascii("hostmaster.invalid.").unwrap(),
                SERIAL,
                3600,
                300,
                3600000,
                TTL,
            )),
        ),
        SERIAL,
    );
    assert!(ok, "SOA upsert");
    // the apex always owns NS (the events describe it as {NS, SOA}), whether the spec lists it or not
    if !spec.owners.iter().any(|(n, ty)| *n == origin && ty.iter().any(|t| t == "NS")) {
        let ok = handler.upsert_mut(Record::from_rdata(origin.clone(), TTL, rdata_for(RecordType::NS)), SERIAL);
        assert!(ok, "apex NS upsert");
    }
    for (owner, types) in &spec.owners {
        for t in types {
            if t == "SOA" {
                continue;
            }
            let rt = rtype_from_str(t);
            let rdata = match (rt, in_zone_cnames.then(|| in_zone_cname_target(spec, owner)).flatten()) {
                (RecordType::CNAME, Some(target)) => RData::CNAME(CNAME(target)),
                _ => rdata_for(rt),
            };
            let rec = Record::from_rdata(owner.clone(), TTL, rdata);
            let ok = handler.upsert_mut(rec, SERIAL);
            assert!(ok, "upsert {owner} {t}");
        }
    }
    let key = new_key();
    let public_key = key.to_public_key().unwrap();
    handler
        .add_zone_signing_key_mut(DnssecSigner::new(
            DNSKEY::from_key(&key.to_public_key().unwrap()),
            key,
            origin.clone(),
            Duration::from_secs(86400),
        ))
        .unwrap();
    handler.secure_zone_mut().unwrap();
    let mut catalog = Catalog::new();
    let handler = Arc::new(handler);
    catalog.upsert(origin.into(), vec![handler.clone()]);
    SignedZone { catalog: Arc::new(catalog), public_key, handler }
}

// ---------------------------------------------------------------------------------------
// talking to the catalog

#[derive(Clone, Default)]
pub struct Capture(Arc<Mutex<Option<Vec<u8>>>>);

#[async_trait::async_trait]
impl ResponseHandler for Capture {
    async fn send_response<'a>(
        &mut self,
        response: MessageResponse<
            '_,
            'a,
            impl Iterator<Item = &'a Record> + Send + 'a,
            impl Iterator<Item = &'a Record> + Send + 'a,
            impl Iterator<Item = &'a Record> + Send + 'a,
            impl Iterator<Item = &'a Record> + Send + 'a,
        >,
    ) -> Result<ResponseInfo, NetError> {
        let mut buf = Vec::with_capacity(1024);
        let info = {
            let mut encoder = BinEncoder::new(&mut buf);
            response.destructive_emit(&mut encoder)?
        };
        *self.0.lock().unwrap() = Some(buf);
        Ok(info)
    }
}

pub async fn exchange(catalog: &Catalog, request_bytes: Vec<u8>) -> Result<DnsResponse, NetError> {
    let req = Request::from_bytes(request_bytes, "127.0.0.1:5300".parse().unwrap(), Protocol::Tcp)?;
    let cap = Capture::default();
    catalog.handle_request::<_, TokioTime>(&req, cap.clone()).await;
    let buf = cap.0.lock().unwrap().take().ok_or_else(|| NetError::from("no response captured"))?;
    Ok(DnsResponse::from_buffer(buf)?)
}

/// One query with the DO bit, answered by the real `Catalog::handle_request`.
pub async fn ask(catalog: &Catalog, name: &Name, rtype: RecordType) -> Result<DnsResponse, NetError> {
    let mut msg = Message::query();
    msg.metadata.id = 4242;
    msg.add_query(Query::new(name.clone(), rtype));
    let mut edns = Edns::new();
    edns.enable_dnssec();
    edns.set_max_payload(4096);
    msg.edns = Some(edns);
    exchange(catalog, msg.to_vec()?).await
}

/// `DnsHandle` over the in-process catalog: what `DnssecDnsHandle` talks to in the end-to-end path.
#[derive(Clone)]
pub struct CatalogHandle {
    pub catalog: Arc<Catalog>,
}

impl DnsHandle for CatalogHandle {
    type Response = Pin<Box<dyn Stream<Item = Result<DnsResponse, NetError>> + Send>>;
    type Runtime = TokioRuntimeProvider;

    fn send(&self, request: DnsRequest) -> Self::Response {
        let catalog = self.catalog.clone();
        Box::pin(stream::once(async move {
            let bytes = request.to_vec()?;
            exchange(&catalog, bytes).await
        }))
    }
}

/// Fault layer between the validator and the honest server: the response to one question is
/// replaced by a prepared message, everything else (DNSKEY lookups ...) is answered by the catalog.
#[derive(Clone)]
pub struct TamperHandle {
    pub inner: CatalogHandle,
    pub query: Query,
    pub forged: Arc<Message>,
}

impl DnsHandle for TamperHandle {
    type Response = Pin<Box<dyn Stream<Item = Result<DnsResponse, NetError>> + Send>>;
    type Runtime = TokioRuntimeProvider;

    fn send(&self, request: DnsRequest) -> Self::Response {
        let hit = request.queries.first().is_some_and(|q| q.name == self.query.name && q.query_type == self.query.query_type);
        if !hit {
            return self.inner.send(request);
        }
        let mut msg = (*self.forged).clone();
        msg.metadata.id = request.metadata.id;
        Box::pin(stream::once(async move { Ok(DnsResponse::from_message(msg)?) }))
    }
}

// ---------------------------------------------------------------------------------------
// projection of a response to the abstract alphabet

pub struct Projected {
    pub rcode: ResponseCode,
    /// "nxdomain" | "nodata" | "wild" | "positive" | "referral" | "other"
    pub kind: &'static str,
    /// closest encloser named by the answer's RRSIG Labels field (kind = "wild")
    pub ce: Option<Name>,
    pub soa: Option<Name>,
    /// some RRset of the answer section (at the query name or further down an alias chain) was
    /// expanded from a wildcard: RRSIG Labels < owner labels
    pub answer_expanded: bool,
}

pub fn suffix(n: &Name, k: usize) -> Name {
    let labels: Vec<Vec<u8>> = n.iter().map(|l| l.to_vec()).collect();
    let from = labels.len() - k;
    let mut s = Name::from_labels(labels[from..].to_vec()).unwrap();
    s.set_fqdn(true);
    s
}

pub fn raw_labels(n: &Name) -> usize {
    n.iter().count()
}

pub fn project(resp: &DnsResponse, qname: &Name) -> Projected {
    let rcode = resp.metadata.response_code;
    let soa = resp.authorities.iter().find(|r| r.record_type() == RecordType::SOA).map(|r| r.name.clone());
    let has_ns_auth = resp.authorities.iter().any(|r| r.record_type() == RecordType::NS);
    let mut ce = None;
    let kind = if rcode == ResponseCode::NXDomain && resp.answers.is_empty() {
        "nxdomain"
    } else if rcode == ResponseCode::NoError && resp.answers.is_empty() {
        if soa.is_none() && has_ns_auth {
            "referral"
        } else {
            "nodata"
        }
    } else if rcode == ResponseCode::NoError {
        // an answer whose RRSIG Labels field is smaller than its owner's label count was expanded
        // from a wildcard (RFC 4035 5.3.2)
        let mut wild: Option<usize> = None;
        for r in resp.answers.iter() {
            if let RData::DNSSEC(DNSSECRData::RRSIG(sig)) = &r.data {
                let l = sig.input().num_labels as usize;
                // RFC 4034 3.1.3: the Labels field does not count a leading "*" label
                let owner_labels = raw_labels(&r.name) - r.name.is_wildcard() as usize;
                if r.name == *qname && l < owner_labels {
                    wild = Some(wild.map_or(l, |w| w.min(l)));
                }
            }
        }
        match wild {
            Some(l) => {
                ce = Some(suffix(qname, l));
                "wild"
            }
            None => "positive",
        }
    } else {
        "other"
    };
    let answer_expanded = resp.answers.iter().any(|r| match &r.data {
        RData::DNSSEC(DNSSECRData::RRSIG(sig)) => (sig.input().num_labels as usize) < raw_labels(&r.name) - r.name.is_wildcard() as usize,
        _ => false,
    });
    Projected { rcode, kind, ce, soa, answer_expanded }
}

pub fn zone_owner_types(records: &BTreeMap<Name, Vec<String>>) -> Value {
    Value::Array(records.iter().map(|(n, ty)| json!({"n": name_to_json(n), "ty": ty})).collect())
}
