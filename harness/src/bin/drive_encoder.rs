//! C03 driver: size-limited encoding through `BinEncoder::set_max_size` + `Message::emit`, and
//! the server response path (H4 wrapper -> Catalog -> ResponseHandle -> captured bytes).
//!
//! `replay --opt-size N --tsig-size M`: cases from Gen_Encoder on stdin (abstract record sizes,
//!   limit, expected observation); records are concretised with *exact* wire sizes
//!   (root owner, NULL RDATA, no compressible names) so abstract sizes are real sizes.
//! `record`: seeded random messages with realistic compression x many limits -> `enc` events;
//!   zones with 1..300 records at one name queried over UDP (no OPT / OPT payloads) and TCP
//!   -> `srv` events. Observations only; the TLA+ monitor Trace_Encoder judges them.
use std::io::{self, BufRead, Write as _};
use std::net::SocketAddr;
use std::str::FromStr;
use std::sync::Arc;

use futures_util::StreamExt;
use hickory_net::runtime::TokioRuntimeProvider;
use hickory_net::xfer::{BufDnsStreamHandle, Protocol};
use hickory_proto::op::{Edns, Message, MessageType, OpCode, Query, SerialMessage};
use hickory_proto::rr::rdata::tsig::{TsigAlgorithm, TSIG};
use hickory_proto::rr::rdata::{A, AAAA, CNAME, MX, NS, NULL, SOA, SRV, TXT};
use hickory_proto::rr::{LowerName, Name, RData, Record, RecordType};
use hickory_proto::serialize::binary::{BinDecodable, BinDecoder, BinEncodable, BinEncoder};
use hickory_server::store::in_memory::InMemoryZoneHandler;
use hickory_server::zone_handler::{AxfrPolicy, Catalog, ZoneType};
use rand::rngs::StdRng;
use rand::{RngExt, SeedableRng};
use serde_json::{json, Value};

/// `verif_handle_raw_request` takes the handler by value; share one catalog across requests
struct SharedCatalog(Arc<Catalog>);

#[async_trait::async_trait]
impl hickory_server::server::RequestHandler for SharedCatalog {
    async fn handle_request<R: hickory_server::server::ResponseHandler, T: hickory_net::runtime::Time>(
        &self,
        request: &hickory_server::server::Request,
        response_handle: R,
    ) {
        self.0.handle_request::<R, T>(request, response_handle).await
    }
}

/// a request handler of a library user: answers every query with `n` address records and sets (or clears)
/// TC itself, as a rate limiter's "slip" or a relay of a truncated answer does
struct TcHandler {
    tc: bool,
    n: usize,
}

#[async_trait::async_trait]
impl hickory_server::server::RequestHandler for TcHandler {
    async fn handle_request<R: hickory_server::server::ResponseHandler, T: hickory_net::runtime::Time>(
        &self,
        request: &hickory_server::server::Request,
        mut response_handle: R,
    ) {
        let mut md = hickory_proto::op::Metadata::response_from_request(&request.metadata);
        md.truncation = self.tc;
        let owner = Name::from(request.queries.name());
        let recs: Vec<Record> = (0..self.n).map(|i| Record::from_rdata(owner.clone(), 60, RData::A(A::new(10, 2, (i >> 8) as u8, i as u8)))).collect();
        let resp = hickory_server::zone_handler::MessageResponseBuilder::from_message_request(request).build(md, recs.iter(), [], [], []);
        let _ = response_handle.send_response(resp).await;
    }
}

fn tsig_record(size: usize) -> Record<TSIG> {
    // owner "k." (3) + fixed (10) + alg name "hmac-sha256." (13) + time 6 + fudge 2 + maclen 2
    // + mac + origid 2 + error 2 + otherlen 2  = 42 + mac
    let mac = vec![0xAB; size - 42];
    let tsig = TSIG::new(TsigAlgorithm::HmacSha256, 1_700_000_000, 300, mac, 7, None, Vec::new());
    Record::from_rdata(Name::from_str("k.").unwrap(), 0, tsig)
}

fn encoded_len<E: BinEncodable>(e: &E) -> usize {
    let mut buf = Vec::new();
    let mut enc = BinEncoder::new(&mut buf);
    // (a record that cannot be written at all counts as larger than any message)
    if e.emit(&mut enc).is_err() {
        return 65_536;
    }
    buf.len()
}

fn sized_record(size: usize, sec: u8, idx: u8) -> Record {
    // root owner (1) + type/class/ttl/rdlength (10) + NULL rdata (size - 11)
    assert!(size >= 12, "record size must be >= 12");
    let mut data = vec![0x5A; size - 11];
    data[0] = sec * 50 + idx; // distinct per record so that prefixes are recognisable
    Record::from_rdata(Name::root(), 60 + idx as u32, RData::NULL(NULL::with(data)))
}

/// Encode with a limit; project the outcome to the observation record of EncoderOps.
fn observe(msg: &Message, limit: u16) -> Value {
    let mut buf = Vec::with_capacity(512);
    let res = {
        let mut enc = BinEncoder::new(&mut buf);
        enc.set_max_size(limit);
        msg.emit(&mut enc)
    };
    if res.is_err() {
        return json!({"result":"fail"});
    }
    let mut dec = BinDecoder::new(&buf);
    let decoded = Message::read(&mut dec);
    let leftover = dec.len();
    let hdr = |i: usize| -> u64 {
        if buf.len() >= 12 {
            u16::from_be_bytes([buf[i], buf[i + 1]]) as u64
        } else {
            9999
        }
    };
    let in_counts = json!({"an": msg.answers.len(), "ns": msg.authorities.len(), "ar": msg.additionals.len()});
    let hdr_counts = json!({"an": hdr(6), "ns": hdr(8), "ar": hdr(10)});
    let opt_in = msg.edns.is_some() as u8;
    let tsig_in = msg.signature.is_some() as u8;
    match decoded {
        Err(_) => json!({"result":"ok","obs":{"limit":limit,"len":buf.len(),"leftover":leftover,"decoded":false,
            "tc0":msg.metadata.truncation,"tc":false,"inCounts":in_counts,"hdrCounts":hdr_counts,
            "outIds":{"an":[],"ns":[],"ar":[]},"optIn":opt_in,"optOut":0,"tsigIn":tsig_in,"tsigOut":0}}),
        Ok(d) => {
            // identifier of a decoded record = 1-based position of the first not yet used equal
            // original record of the same section (0 if there is none)
            let ids = |orig: &Vec<Record>, out: &Vec<Record>| -> Vec<usize> {
                let mut used = vec![false; orig.len()];
                out.iter()
                    .map(|r| {
                        for (i, o) in orig.iter().enumerate() {
                            if !used[i] && o == r {
                                used[i] = true;
                                return i + 1;
                            }
                        }
                        0
                    })
                    .collect()
            };
            json!({"result":"ok","obs":{"limit":limit,"len":buf.len(),"leftover":leftover,"decoded":true,
                "tc0":msg.metadata.truncation,"tc":d.metadata.truncation,"inCounts":in_counts,"hdrCounts":hdr_counts,
                "outIds":{"an":ids(&msg.answers,&d.answers),"ns":ids(&msg.authorities,&d.authorities),"ar":ids(&msg.additionals,&d.additionals)},
                "optIn":opt_in,"optOut":d.edns.is_some() as u8,"tsigIn":tsig_in,"tsigOut":d.signature.is_some() as u8}})
        }
    }
}

fn random_message(rng: &mut StdRng) -> Message {
    let mut m = Message::new(rng.random(), MessageType::Response, OpCode::Query);
    m.metadata.truncation = rng.random_bool(0.2);
    let zone = ["example.com.", "a.very-long-label-to-make-names-bigger.example.org.", "x."][rng.random_range(0..3)];
    let name = |rng: &mut StdRng| -> Name {
        let hosts = ["www", "mail", "ns1", "a.b.c", "WWW", "deep.er.and.deep.er", "_srv._tcp"];
        Name::from_str(&format!("{}.{}", hosts[rng.random_range(0..hosts.len())], zone)).unwrap()
    };
    if rng.random_bool(0.9) {
        m.add_query(Query::new(name(rng), RecordType::A));
    }
    let mut uniq = 0u32;
    let mut rec = |rng: &mut StdRng| -> Record {
        uniq += 1;
        let n = name(rng);
        let t = name(rng);
        let rd = match rng.random_range(0..9) {
            0 => RData::A(A::new(10, 0, (uniq >> 8) as u8, uniq as u8)),
            1 => RData::AAAA(AAAA::new(0x2001, 0xdb8, 0, 0, 0, 0, 0, uniq as u16)),
            2 => RData::TXT(TXT::new(vec!["x".repeat(rng.random_range(0..200)), format!("{uniq}")])),
            3 => RData::MX(MX::new(uniq as u16, t)),
            4 => RData::NS(NS(t)),
            5 => RData::CNAME(CNAME(t)),
            6 => RData::SOA(SOA::new(t.clone(), n.clone(), uniq, 2, 3, 4, 5)),
            7 => RData::SRV(SRV::new(1, 2, uniq as u16, t)),
            _ => RData::NULL(NULL::with(vec![7; rng.random_range(1..300)])),
        };
        Record::from_rdata(n, uniq, rd)
    };
    for _ in 0..rng.random_range(0..14) {
        let r = rec(rng);
        m.add_answer(r);
    }
    for _ in 0..rng.random_range(0..6) {
        let r = rec(rng);
        m.add_authority(r);
    }
    for _ in 0..rng.random_range(0..8) {
        let r = rec(rng);
        m.add_additional(r);
    }
    if rng.random_bool(0.5) {
        let mut e = Edns::new();
        e.set_max_payload(1232);
        m.edns = Some(e);
    }
    if rng.random_bool(0.3) {
        m.signature = Some(Box::new(tsig_record(42 + 32)));
    }
    // now and then a record no encoder can write (a character-string of more than 255 octets) somewhere in
    // a section: "encoding either fails or ..." -- what is not allowed is to leave it out silently
    if rng.random_bool(0.08) {
        let bad = Record::from_rdata(name(rng), 300, RData::TXT(TXT::new(vec!["q".repeat(300)])));
        let sec = match rng.random_range(0..3) {
            0 => &mut m.answers,
            1 => &mut m.authorities,
            _ => &mut m.additionals,
        };
        let at = rng.random_range(0..=sec.len());
        sec.insert(at, bad);
    }
    m
}

async fn server_events(seed: u64, n: usize, trace: &mut dyn io::Write) {
    let mut rng = StdRng::seed_from_u64(seed ^ 0x5eed);
    let origin = Name::from_str("example.").unwrap();
    for case in 0..n {
        // every 7th zone holds an RRset of more than 64 KiB: even the stream transports have to cut it
        let huge = case % 7 == 6;
        let nrec = if huge {
            rng.random_range(1100..1400)
        } else {
            match rng.random_range(0..4) {
                0 => rng.random_range(1..8),
                1 => rng.random_range(8..40),
                2 => rng.random_range(40..120),
                _ => rng.random_range(120..300),
            }
        };
        let mut handler = InMemoryZoneHandler::<TokioRuntimeProvider>::empty(origin.clone(), ZoneType::Primary, AxfrPolicy::Deny, None);
        handler.upsert_mut(
            Record::from_rdata(origin.clone(), 3600, RData::SOA(SOA::new(Name::from_str("ns.example.").unwrap(), Name::from_str("h.example.").unwrap(), 1, 2, 3, 4, 5))),
            1,
        );
        handler.upsert_mut(Record::from_rdata(origin.clone(), 3600, RData::NS(NS(Name::from_str("ns.example.").unwrap()))), 1);
        let big = Name::from_str("big.example.").unwrap();
        let txt = huge || rng.random_bool(0.5);
        // a record the zone can hold but no encoder can write (one <character-string> of more than 255
        // octets): the response fails to encode for a reason other than size and the server falls back to
        // a bare SERVFAIL -- which is a message like any other
        let unencodable_at = if txt && !huge && rng.random_bool(0.3) { rng.random_range(0..nrec) } else { usize::MAX };
        for i in 0..nrec {
            let rd = if txt && i == unencodable_at {
                RData::TXT(TXT::new(vec!["q".repeat(300)]))
            } else if txt {
                RData::TXT(TXT::new(vec![format!("record-{i}-{}", "p".repeat(if huge { 50 } else { rng.random_range(0..60) }))]))
            } else {
                RData::A(A::new(10, 1, (i >> 8) as u8, i as u8))
            };
            handler.upsert_mut(Record::from_rdata(big.clone(), 300, rd), 1);
        }
        let mut catalog = Catalog::new();
        catalog.upsert(LowerName::new(&origin), vec![Arc::new(handler)]);
        let catalog = Arc::new(catalog);
        let mut combos: Vec<(Protocol, i64, bool)> = Vec::new();
        for adv in [-1i64, 0, 512, 513, 800, 1219, 1220, 1232, 4096, 65535] {
            combos.push((Protocol::Udp, adv, false));
            if adv >= 0 {
                combos.push((Protocol::Udp, adv, true)); // DO bit set
            }
        }
        combos.push((Protocol::Tcp, -1, false));
        combos.push((Protocol::Tcp, 1232, true));
        for (proto, adv, dnssec_ok) in combos {
            let mut q = Message::query();
            q.metadata.id = rng.random();
            q.add_query(Query::new(big.clone(), if txt { RecordType::TXT } else { RecordType::A }));
            let mut adv_seen = adv;
            if adv >= 0 {
                // Edns::set_max_payload itself raises values below 512; what goes on the wire is
                // what the client advertised, so read it back from the built request
                let mut e = Edns::new();
                e.set_max_payload(adv as u16);
                e.set_dnssec_ok(dnssec_ok);
                adv_seen = e.max_payload() as i64;
                q.edns = Some(e);
            }
            let bytes = q.to_vec().unwrap();
            let src: SocketAddr = "192.0.2.7:5353".parse().unwrap();
            let (handle, mut rx) = BufDnsStreamHandle::new(src);
            hickory_server::server::verif_handle_raw_request(SharedCatalog(catalog.clone()), [], [], SerialMessage::new(bytes, src), proto, handle).await;
            let mut replies = Vec::new();
            while let Ok(Some(m)) = tokio::time::timeout(std::time::Duration::from_millis(1), rx.next()).await {
                replies.push(m);
            }
            let (len, decoded, leftover, tc, an) = match replies.first() {
                Some(m) => {
                    let b = m.bytes();
                    let mut dec = BinDecoder::new(b);
                    match Message::read(&mut dec) {
                        Ok(d) => (b.len(), true, dec.len(), d.metadata.truncation, d.answers.len()),
                        Err(_) => (b.len(), false, dec.len(), false, 0),
                    }
                }
                None => (0, false, 0, false, 0),
            };
            writeln!(
                trace,
                "{}",
                json!({"ev":"srv","case":format!("srv-s{seed}-{case}"),"proto": if proto == Protocol::Udp {"udp"} else {"tcp"},
                    "adv":adv_seen,"replies":replies.len(),"len":len,"decoded":decoded,"leftover":leftover,"tc":tc,
                    "answers":an,"zone_records":nrec,"do":dnssec_ok,"unencodable":unencodable_at != usize::MAX})
            )
            .unwrap();
        }
        // a handler that sets TC itself: "... and otherwise unchanged"
        for (tc, n, proto, adv) in [(true, 2usize, Protocol::Udp, -1i64), (false, 2, Protocol::Udp, -1), (true, 3, Protocol::Tcp, -1), (true, 2, Protocol::Udp, 1232),
            (true, 60, Protocol::Udp, -1), (false, 60, Protocol::Udp, -1)] {
            let mut q = Message::query();
            q.metadata.id = rng.random();
            q.add_query(Query::new(Name::from_str("slip.example.").unwrap(), RecordType::A));
            if adv >= 0 {
                let mut e = Edns::new();
                e.set_max_payload(adv as u16);
                q.edns = Some(e);
            }
            let src: SocketAddr = "192.0.2.7:5353".parse().unwrap();
            let (handle, mut rx) = BufDnsStreamHandle::new(src);
            hickory_server::server::verif_handle_raw_request(TcHandler { tc, n }, [], [], SerialMessage::new(q.to_vec().unwrap(), src), proto, handle).await;
            let mut replies = Vec::new();
            while let Ok(Some(m)) = tokio::time::timeout(std::time::Duration::from_millis(1), rx.next()).await {
                replies.push(m);
            }
            let (len, decoded, leftover, tc_out, an) = match replies.first() {
                Some(m) => {
                    let b = m.bytes();
                    let mut dec = BinDecoder::new(b);
                    match Message::read(&mut dec) {
                        Ok(d) => (b.len(), true, dec.len(), d.metadata.truncation, d.answers.len()),
                        Err(_) => (b.len(), false, dec.len(), false, 0),
                    }
                }
                None => (0, false, 0, false, 0),
            };
            writeln!(
                trace,
                "{}",
                json!({"ev":"srvtc","case":format!("srvtc-s{seed}-{case}"),"proto": if proto == Protocol::Udp {"udp"} else {"tcp"},
                    "adv":adv,"replies":replies.len(),"len":len,"decoded":decoded,"leftover":leftover,"tcIn":tc,"tc":tc_out,
                    "answers":an,"given":n})
            )
            .unwrap();
        }
    }
}

fn main() {
    let args: Vec<String> = std::env::args().collect();
    let mode = args.get(1).map(String::as_str).unwrap_or("");
    let mut trace_path = None;
    let mut n_cases = 200usize;
    let mut n_srv = 20usize;
    let mut seed = vh::util::seed_from_env();
    let mut opt_size = 11usize;
    let mut tsig_size = 61usize;
    let mut i = 2;
    while i < args.len() {
        let v = args.get(i + 1).cloned().unwrap_or_default();
        match args[i].as_str() {
            "--trace" => trace_path = Some(v),
            "--n" => n_cases = v.parse().unwrap(),
            "--srv" => n_srv = v.parse().unwrap(),
            "--seed" => seed = v.parse().unwrap(),
            "--opt-size" => opt_size = v.parse().unwrap(),
            "--tsig-size" => tsig_size = v.parse().unwrap(),
            _ => {
                i += 1;
                continue;
            }
        }
        i += 2;
    }
    let mut trace: Box<dyn io::Write> = match &trace_path {
        Some(p) => Box::new(io::BufWriter::new(std::fs::File::create(p).unwrap())),
        None => Box::new(io::sink()),
    };
    let stdout = io::stdout();
    let mut out = io::BufWriter::new(stdout.lock());

    match mode {
        "replay" => {
            // adapter self-check: the concretised OPT / TSIG / sized records have the sizes the
            // specification assumes (a mismatch is a tool error, not a violation)
            let opt_rec = Record::from(&Edns::new());
            assert_eq!(encoded_len(&opt_rec), opt_size, "OPT size");
            assert_eq!(encoded_len(&tsig_record(tsig_size)), tsig_size, "TSIG size");
            assert_eq!(encoded_len(&sized_record(23, 0, 1)), 23, "sized record");
            assert_eq!(encoded_len(&Query::new(Name::root(), RecordType::A)), 5, "question size");
            for (ln, line) in io::stdin().lock().lines().enumerate() {
                let line = line.unwrap();
                if line.trim().is_empty() {
                    continue;
                }
                let c: Value = serde_json::from_str(&line).expect("case");
                let mut m = Message::new(0x1234, MessageType::Response, OpCode::Query);
                m.metadata.truncation = c["tc0"].as_bool().unwrap();
                match c["q"].as_u64().unwrap() {
                    0 => {}
                    5 => {
                        m.add_query(Query::new(Name::root(), RecordType::A));
                    }
                    q => panic!("question size {q}"),
                }
                for (si, sec) in ["an", "ns", "ar"].iter().enumerate() {
                    for (ri, s) in c["sizes"][sec].as_array().unwrap().iter().enumerate() {
                        let r = sized_record(s.as_u64().unwrap() as usize, si as u8, ri as u8 + 1);
                        match *sec {
                            "an" => m.add_answer(r),
                            "ns" => m.add_authority(r),
                            _ => m.add_additional(r),
                        };
                    }
                }
                if c["opt"].as_bool().unwrap() {
                    m.edns = Some(Edns::new());
                }
                if c["tsig"].as_bool().unwrap() {
                    m.signature = Some(Box::new(tsig_record(tsig_size)));
                }
                let limit = c["limit"].as_u64().unwrap() as u16;
                let o = observe(&m, limit);
                let exp_result = c["result"].as_str().unwrap();
                let mut class = Value::Null;
                let ok = if o["result"] != exp_result {
                    class = json!("result-differs");
                    false
                } else if exp_result == "ok" {
                    let (e, a) = (&c["obs"], &o["obs"]);
                    let mut diffs = Vec::new();
                    for k in ["limit", "len", "leftover", "decoded", "tc0", "tc", "inCounts", "hdrCounts", "outIds", "optIn", "optOut", "tsigIn", "tsigOut"] {
                        if e[k] != a[k] {
                            diffs.push(k);
                        }
                    }
                    if diffs.is_empty() {
                        true
                    } else {
                        class = json!(if diffs.iter().all(|d| *d == "len" || *d == "leftover") { "bytes-left-over-after-message".to_string() } else { format!("differs:{}", diffs.join(",")) });
                        false
                    }
                } else {
                    true
                };
                let dropped = exp_result == "ok" && c["obs"]["hdrCounts"] != json!({"an": c["sizes"]["an"].as_array().unwrap().len(), "ns": c["sizes"]["ns"].as_array().unwrap().len(),
                    "ar": c["sizes"]["ar"].as_array().unwrap().len() + c["opt"].as_bool().unwrap() as usize + c["tsig"].as_bool().unwrap() as usize});
                writeln!(out, "{}", json!({"case": ln, "ok": ok, "class": class, "nontrivial": dropped, "expected": {"result": exp_result, "obs": c["obs"]},
                    "observed": o, "input": {"q": c["q"], "sizes": c["sizes"], "opt": c["opt"], "tsig": c["tsig"], "tc0": c["tc0"], "limit": c["limit"]}})).unwrap();
            }
        }
        "record" => {
            let mut rng = StdRng::seed_from_u64(seed);
            for case in 0..n_cases {
                let m = random_message(&mut rng);
                let full = encoded_len(&m);
                let mut limits: Vec<u16> = Vec::new();
                for _ in 0..12 {
                    limits.push(match rng.random_range(0..4) {
                        0 => rng.random_range(12..=700),
                        1 => rng.random_range(12..=(full.min(65535).max(13) as u16)),
                        2 => (full as i64 + rng.random_range(-3..=3)).clamp(12, 65535) as u16,
                        _ => rng.random_range(12..=65535),
                    });
                }
                for limit in limits {
                    let mut o = observe(&m, limit);
                    o["ev"] = json!("enc");
                    o["case"] = json!(format!("enc-s{seed}-{case}-{limit}"));
                    o["limit"] = json!(limit);
                    o["full_len"] = json!(full);
                    writeln!(trace, "{o}").unwrap();
                }
            }
            let rt = tokio::runtime::Builder::new_current_thread().enable_all().build().unwrap();
            rt.block_on(server_events(seed, n_srv, &mut trace));
            writeln!(out, "{}", json!({"cases": n_cases, "srv": n_srv})).unwrap();
        }
        _ => {
            eprintln!("usage: drive_encoder replay|record ...");
            std::process::exit(2);
        }
    }
    trace.flush().unwrap();
}
