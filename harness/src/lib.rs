//! Shared helpers for the conformance drivers.
pub mod util;
