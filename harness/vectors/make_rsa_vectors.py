#!/usr/bin/env python3
"""One-time producer of harness/vectors/rsa.json (NOT used at check time; the check never calls
openssl).

What it does
  1. `openssl genrsa` makes one 1024-bit and one 2048-bit RSA key (e = 65537).
  2. For each key and each of the DNSSEC RSA algorithms 5 (RSASHA1), 7 (RSASHA1-NSEC3-SHA1),
     8 (RSASHA256), 10 (RSASHA512) the DNSKEY RDATA is assembled (flags 256, protocol 3,
     algorithm, RFC 3110 public key: exponent length | exponent | modulus) and its key tag
     computed (RFC 4034 Appendix B).
  3. The signed data of the fixed RRset  www.example. 3600 IN A {192.0.2.1, 192.0.2.2}  with
     RRSIG parameters (Labels 2, Original TTL 3600, Expiration 0x70000000, Inception
     0x60000000, Signer example., that algorithm, that key tag) is taken from the SPECIFICATION:
     TLC evaluates CanonicalForm!SignedData through Gen_Canonical (the same generator
     configuration lib/checks/c05.py runs as "rsavec").
  4. `openssl dgst -sha1|-sha256|-sha512 -sign key.pem` makes the PKCS#1 v1.5 signature over those
     octets (the "conforming third-party signer": ring cannot sign with keys below 2048 bits nor
     with SHA-1).
Usage: python3 harness/vectors/make_rsa_vectors.py   (needs openssl on PATH or /root/miniconda/bin)
"""
import json
import os
import shutil
import subprocess
import sys
import tempfile

HERE = os.path.dirname(os.path.abspath(__file__))
sys.path.insert(0, os.path.join(HERE, "..", "..", "lib"))
import vlib  # noqa: E402
from checks import c05  # noqa: E402

OPENSSL = shutil.which("openssl") or "/root/miniconda/bin/openssl"
DIGEST = {5: "-sha1", 7: "-sha1", 8: "-sha256", 10: "-sha512"}


def key_tag(rd):
    ac = 0
    for i, b in enumerate(rd):
        ac += b << 8 if i % 2 == 0 else b
    ac += (ac >> 16) & 0xFFFF
    return ac & 0xFFFF


def main():
    tmp = tempfile.mkdtemp(dir=os.path.join(vlib.VERIF, "work"))
    vectors = []
    for bits in (1024, 2048):
        pem = os.path.join(tmp, f"k{bits}.pem")
        subprocess.run([OPENSSL, "genrsa", "-out", pem, str(bits)], check=True, capture_output=True)
        mod = subprocess.run([OPENSSL, "rsa", "-in", pem, "-noout", "-modulus"], check=True, capture_output=True,
                             text=True).stdout.strip().split("=")[1]
        n = bytes.fromhex(mod)
        pub = bytes([3, 1, 0, 1]) + n
        for alg in (5, 7, 8, 10):
            rd = bytes([1, 0, 3, alg]) + pub
            vectors.append({"bits": bits, "alg": alg, "dnskey_rdata": list(rd), "tag": key_tag(rd), "pem": pem})
    # the specification's signed data for each (alg, tag)
    wd = vlib.workdir("rsavec-make")
    cases = c05.rsavec_cases(wd, [(v["alg"], v["tag"]) for v in vectors])
    for v in vectors:
        c = next(c for c in cases if c["sig"]["alg"] == v["alg"] and c["sig"]["tag"] == v["tag"] and c["sig"]["labels"] == 2
                 and len(c["recs"]) == 2 and c["recs"][0]["rd"] != c["recs"][1]["rd"])
        tbs = bytes(c["allowed"][0]["tbs"])
        f = os.path.join(tmp, "tbs.bin")
        open(f, "wb").write(tbs)
        sig = subprocess.run([OPENSSL, "dgst", DIGEST[v["alg"]], "-sign", v.pop("pem"), f], check=True, capture_output=True).stdout
        v["signature"] = list(sig)
        v["signed_data_sha256"] = __import__("hashlib").sha256(tbs).hexdigest()
    out = {"how": "produced once by harness/vectors/make_rsa_vectors.py (openssl genrsa / openssl dgst -sign over the signed "
                  "data TLC computed from CanonicalForm!SignedData); see the docstring of that file",
           "openssl": subprocess.run([OPENSSL, "version"], capture_output=True, text=True).stdout.strip(),
           "rrset": c05.RSAVEC, "vectors": vectors}
    json.dump(out, open(os.path.join(HERE, "rsa.json"), "w"), indent=1)
    shutil.rmtree(tmp)
    print("wrote", os.path.join(HERE, "rsa.json"), len(vectors), "vectors")


if __name__ == "__main__":
    main()
